#!/venv/bin/python
"""Regenerates the generated tables of DESIGN.md (between <!-- BEGIN:x --> / <!-- END:x --> markers) from the files they
describe: evidence/*.json (what the last runs covered), seeded/*/meta.json (which check catches which seeded change),
known_findings.json (findings and fixes)."""
import json
import re
from pathlib import Path

ROOT = Path(__file__).resolve().parent.parent


def evidence_table() -> str:
    rows = ["| Property | tier | TLC states (all instances) | replayed spec→code | trace events code→spec | distinct non-trivial cases | known findings hit | wall |",
            "|---|---|---|---|---|---|---|---|"]
    for f in sorted((ROOT / "evidence").glob("C*.json")):
        e = json.loads(f.read_text())
        c = e["coverage"]
        rows.append(f"| {e['property_id']} | {e['tier']} | {c.get('states', 0):,} | {c.get('replayed_spec_to_code', 0):,} | "
                    f"{c.get('trace_events_code_to_spec', 0):,} | {c.get('distinct_nontrivial', 0):,} | {len(c.get('known_findings_hit', []))} | {e.get('wall_s', 0):.0f} s |")
    return "\n".join(rows)


def seeded_table() -> str:
    rows = ["| Seeded change | breaks | what was changed (one line) | detected by (quick tier) | first reported line |", "|---|---|---|---|---|"]
    for d in sorted((ROOT / "seeded").iterdir()):
        m = d / "meta.json"
        if not m.exists():
            continue
        meta = json.loads(m.read_text())
        note = meta.get("needs_to_manifest", "")
        title = next((ln.strip("# *-").strip() for ln in note.splitlines() if ln.strip()), "")[:110]
        det = meta.get("detected_by", {})
        hits = [p for p, r in det.items() if r.get("exit") == 1]
        miss = [p for p, r in det.items() if r.get("exit") == 0]
        broken = [p for p, r in det.items() if r.get("exit") not in (0, 1)]
        first = ""
        for p in hits:
            vs = [v for v in det[p]["violations"] if v.startswith("VIOLATION")]
            if vs:
                first = re.sub(r"replay=\S+\s*", "", vs[0])[:150].replace("|", "\\|")
                break
        cell = ", ".join(hits) if hits else "**not detected**"
        if miss:
            cell += f" (not by {', '.join(miss)})"
        if broken:
            cell += f" (machinery failure in {', '.join(broken)})"
        rows.append(f"| {meta['name']} | {meta['breaks_property']} | {title.replace('|', '/')} | {cell} | {first} |")
    return "\n".join(rows)


def findings_table() -> str:
    k = json.loads((ROOT / "known_findings.json").read_text())
    rows = ["| id | property | status | commit | what |", "|---|---|---|---|---|"]
    for f in k["findings"]:
        what = re.sub(r"^fixed: property=\S+ \S+ ", "", f["what"])[:260].replace("|", "\\|").replace("\n", " ")
        rows.append(f"| {f['id']} | {f['property']} | {f['status']} | {f.get('commit', '')} | {what} |")
    return "\n".join(rows)


def main() -> None:
    p = ROOT / "DESIGN.md"
    s = p.read_text()
    for name, gen in (("evidence", evidence_table), ("seeded", seeded_table), ("findings", findings_table)):
        pat = re.compile(rf"(<!-- BEGIN:{name} -->\n)(.*?)(<!-- END:{name} -->)", re.S)
        if not pat.search(s):
            raise SystemExit(f"marker {name} missing in DESIGN.md")
        s = pat.sub(lambda m: m.group(1) + gen() + "\n" + m.group(3), s)
    p.write_text(s)


if __name__ == "__main__":
    main()
