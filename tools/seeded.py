#!/venv/bin/python
"""Seeded-change bookkeeping.
  tools/seeded.py confirm <name>         apply seeded/<name>/patch.diff to /repo, check demo fails + test-suite passes, refresh
                                         patch.diff against the current HEAD, revert, check demo passes; writes meta.json
  tools/seeded.py run <name> [Cxx ...]   apply, run the quick checks of the listed properties (default: meta.property), revert
/repo must be clean before and is clean after."""
import json, subprocess, sys, os
from pathlib import Path
ROOT = Path(__file__).resolve().parent.parent
# SEEDED_WT=1: work in a scratch worktree /tmp/wt_seed_<name> of /repo's HEAD instead of /repo's working tree (checks then run
# with VERIF_REPO pointing there), so that seeded changes can be tried while other checks use /repo
WT = bool(os.environ.get("SEEDED_WT"))
REPO = "/repo"

def sh(cmd, **kw):
    return subprocess.run(cmd, shell=True, capture_output=True, text=True, **kw)

def clean():
    sh(f"git -C {REPO} reset -q; git -C {REPO} checkout -- .")

def ensure_clean():
    st = sh(f"git -C {REPO} status --porcelain").stdout.strip()
    if st:
        sys.exit(f"/repo is not clean:\n{st}")

def apply(name):
    p = ROOT / "seeded" / name / "patch.diff"
    r = sh(f"git -C {REPO} apply {p}")
    if r.returncode != 0:
        r = sh(f"git -C {REPO} apply --3way {p}")
        if r.returncode != 0:
            clean(); sys.exit(f"cannot apply {p}: {r.stderr}")
        sh(f"git -C {REPO} reset -q")

def demo(name):
    return sh(f"cd {ROOT}/seeded/{name} && PYTHONPATH={REPO}/src /venv/bin/python demo.py")

def confirm(name, prop):
    ensure_clean()
    d = ROOT / "seeded" / name
    r0 = demo(name)
    apply(name)
    try:
        r1 = demo(name)
        t = sh(f"cd {REPO} && PYTHONPATH={REPO}/src:{REPO}/tests/tests_helpers /venv/bin/python -m pytest -q -p no:cacheprovider -x 2>&1 | tail -1")
        diff = sh(f"git -C {REPO} diff").stdout
    finally:
        clean()
    ok = r0.returncode == 0 and r1.returncode != 0 and " passed" in t.stdout and "failed" not in t.stdout
    (d / "patch.diff").write_text(diff)
    meta = {"name": name, "breaks_property": prop, "demo_exit_without_patch": r0.returncode, "demo_exit_with_patch": r1.returncode,
            "test_suite_with_patch": t.stdout.strip(), "confirmed": ok,
            "needs_to_manifest": (d / "note.md").read_text()[:1500] if (d / "note.md").exists() else "",
            "what_was_run": "demo.py without/with patch (PYTHONPATH=/repo/src), full pytest suite with patch; patch.diff refreshed against /repo HEAD",
            "detected_by": {}}
    old = d / "meta.json"
    if old.exists():
        meta["detected_by"] = json.loads(old.read_text()).get("detected_by", {})
    old.write_text(json.dumps(meta, indent=1))
    print(name, "confirmed" if ok else "NOT CONFIRMED", r0.returncode, r1.returncode, t.stdout.strip())

def run(name, props):
    ensure_clean()
    d = ROOT / "seeded" / name
    meta = json.loads((d / "meta.json").read_text())
    props = props or [meta["breaks_property"]]
    apply(name)
    try:
        for p in props:
            r = sh(f"cd {ROOT} && ./check {p} --tier quick", env={**os.environ, "VERIF_OUT_DIR": f"/tmp/vf_seeded_out_{name}" if WT else "/tmp/vf_seeded_out",
                                                                **({"VERIF_REPO": REPO} if WT else {})})
            lines = [l for l in r.stdout.splitlines() if l.startswith("VIOLATION") or l.startswith("KNOWN")]
            meta["detected_by"][p] = {"exit": r.returncode, "violations": [l[:300] for l in lines[:5]]}
            print(name, p, "exit", r.returncode, *(l[:260] for l in lines[:3]), sep="\n   ")
            if r.returncode == 2:
                print(r.stderr[-800:])
    finally:
        clean()
    (d / "meta.json").write_text(json.dumps(meta, indent=1))

if __name__ == "__main__":
    cmd, name, *rest = sys.argv[1:]
    if WT:
        REPO = f"/tmp/wt_seed_{name}"
        sh(f"git -C /repo worktree remove --force {REPO}")
        r = sh(f"git -C /repo worktree add {REPO} HEAD")
        if r.returncode != 0:
            sys.exit(f"cannot create worktree: {r.stderr}")
        import atexit
        atexit.register(lambda: (sh(f"git -C /repo worktree remove --force {REPO}"), sh("git -C /repo worktree prune"), sh(f"rm -rf /tmp/vf_seeded_out_{name}")))
    if cmd == "confirm":
        confirm(name, rest[0])
    else:
        run(name, rest)
