#!/bin/bash
# tools/seeded_wt.sh <seeded-id> <Cxx> [Cxx...] : try a seeded change in a scratch worktree (never touches /repo's working tree)
# prints the VIOLATION / KNOWN-FINDING lines and the exit code of each quick check; removes the worktree afterwards
set -u
id="$1"; shift
wt="/tmp/wt_seed_$id"
git -C /repo worktree remove --force "$wt" >/dev/null 2>&1
git -C /repo worktree add -q "$wt" HEAD || exit 2
( cd "$wt" && { git apply "/verif/seeded/$id/patch.diff" || git apply --3way "/verif/seeded/$id/patch.diff"; } ) || { echo "cannot apply"; git -C /repo worktree remove --force "$wt"; exit 2; }
for p in "$@"; do
  out=$(cd /verif && VERIF_REPO="$wt" VERIF_OUT_DIR="/tmp/vf_seeded_out_$id" ./check "$p" --tier quick 2>&1); rc=$?
  echo "== $id $p exit $rc"
  echo "$out" | grep "^VIOLATION\|^MACHINERY" | cut -c1-330 | head -4
done
git -C /repo worktree remove --force "$wt"; git -C /repo worktree prune
rm -rf "/tmp/vf_seeded_out_$id"
