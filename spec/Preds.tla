------------------------------------- MODULE Preds -------------------------------------
(***************************************************************************************)
(* The predicate system (property C10), transcribed from the "Predicate system"        *)
(* section of docs/loading-and-dumping/tutorial.rst.                                   *)
(*                                                                                     *)
(* A location stack is a sequence of locations                                         *)
(*    [k |-> "type" | "field" | "param", t |-> class token, f |-> field id, pos |-> n] *)
(* (TypeHintLoc / FieldLoc / GenericParamLoc; every location carries a type).          *)
(* Predicate expressions are syntax trees, so that the documented identities between   *)
(* different spellings are real statements:                                            *)
(*    [p |-> "cls", c]          a class used as predicate                              *)
(*    [p |-> "str", s]          a string used as predicate                             *)
(*    [p |-> "any"]             P.ANY                                                  *)
(*    [p |-> "chain", es]       P followed by the elements es:                         *)
(*         [e |-> "item", x]    P[x]         x an atom (cls / str)                     *)
(*         [e |-> "items", xs]  P[x, y]                                                *)
(*         [e |-> "attr", s]    P.name                                                 *)
(*         [e |-> "garg", pos, x]   .generic_arg(pos, x)                               *)
(*    [p |-> "plus", l, r]      chain + chain                                          *)
(*    [p |-> "or"|"and"|"xor", l, r],  [p |-> "not", x]                                *)
(*                                                                                     *)
(* Facts about Python (class relations of the harness' class universe, regex matching  *)
(* on the finite set of field ids) are the generated module PredAxioms.                 *)
(***************************************************************************************)
EXTENDS PredAxioms, Naturals, Sequences, FiniteSets, SequencesExt, TLC, Json

(* ------------------------------ atoms ----------------------------------------------- *)
\* "If you pass a class, the provider will be applied to all same types.  If you pass an abstract class ... to all
\*  subclasses.  If you pass a runtime checkable protocol ... to all protocol implementations."
\* (a parametrised hint used as a predicate - kind "exacttype" - selects exactly the locations of that very type)
ClassMatch(c, t) == IF ClassKind[c] \in {"abstract", "protocol"} THEN c \in Supers[Origin[t]]
                    ELSE IF ClassKind[c] = "exacttype" THEN t = c
                    ELSE Origin[t] = ClassOf[c]
\* "If you pass a string, it will be interpreted as a regex and the provider will be applied to all fields with id matched
\*  by the regex ... if you pass the field_id directly, it will match an equal string."
StrMatch(s, f) == IF IsIdentifier[s] THEN s = f ELSE f \in FullMatches[s]

LastLoc(stk) == stk[Len(stk)]
AtomMatch(a, loc) == CASE a.p = "cls" -> ClassMatch(a.c, loc.t)                       \* every location has a type
                       [] a.p = "str" -> loc.k = "field" /\ StrMatch(a.s, loc.f)       \* only fields have an id
                       [] a.p = "any" -> TRUE

ElemMatch(e, loc) == CASE e.e = "item" -> AtomMatch(e.x, loc)
                       [] e.e = "items" -> \E i \in 1..Len(e.xs) : AtomMatch(e.xs[i], loc)     \* P[A, B] matches A or B
                       [] e.e = "attr" -> loc.k = "field" /\ loc.f = e.s
                       [] e.e = "garg" -> loc.k = "param" /\ loc.pos = e.pos /\ AtomMatch(e.x, loc)

\* "P represents pattern of path at structure definition": the tail of the stack satisfies the elements in order
ChainMatch(es, stk) == /\ Len(es) <= Len(stk)
                       /\ \A i \in 1..Len(es) : ElemMatch(es[i], stk[Len(stk) - Len(es) + i])

RECURSIVE Elems(_)
Elems(x) == CASE x.p = "chain" -> x.es
              [] x.p = "plus" -> Elems(x.l) \o Elems(x.r)

RECURSIVE Match(_, _)
Match(x, stk) ==
  CASE x.p \in {"cls", "str", "any"} -> AtomMatch(x, LastLoc(stk))
    [] x.p \in {"chain", "plus"} -> ChainMatch(Elems(x), stk)
    [] x.p = "or"  -> Match(x.l, stk) \/ Match(x.r, stk)
    [] x.p = "and" -> Match(x.l, stk) /\ Match(x.r, stk)
    [] x.p = "xor" -> Match(x.l, stk) # Match(x.r, stk)
    [] x.p = "not" -> ~Match(x.x, stk)

(* ------------------------------ universes ------------------------------------------- *)
CONSTANTS MaxStack,     \* maximal depth of location stacks
          MaxChain,     \* maximal number of chain elements
          Rich          \* TRUE: the larger expression pool

Cls(c) == [p |-> "cls", c |-> c]
Str(s) == [p |-> "str", s |-> s]
AnyP   == [p |-> "any"]
Item(x) == [e |-> "item", x |-> x]
Items(xs) == [e |-> "items", xs |-> xs]
Attr(s) == [e |-> "attr", s |-> s]
GArg(n, x) == [e |-> "garg", pos |-> n, x |-> x]
Chain(es) == [p |-> "chain", es |-> es]

PredClasses == IF Rich THEN Classes ELSE {"A", "B", "Abs", "Impl", "Proto", "G", "T0", "TupleAlias"}
LocTypes == IF Rich THEN DOMAIN Origin ELSE {"A", "B", "Impl2", "PImpl", "Gint", "Abs", "T0", "Tis"}
Atoms == {Cls(c) : c \in PredClasses} \cup {Str(s) : s \in Strings} \cup {AnyP}
ElemPool == {Item(Cls("A")), Item(Cls("Abs")), Item(Str("n")), Item(Str("n|m")), Attr("n"), Attr("nm"),
             Items(<<Cls("A"), Cls("Impl")>>), Items(<<Str("m"), Cls("B")>>), GArg(0, Cls("A")), GArg(1, AnyP), Item(AnyP),
             Item(Cls("Proto")), Item(Cls("G"))}
             \cup (IF Rich THEN {Item(a) : a \in Atoms} \cup {Attr(f) : f \in FieldIds} ELSE {})
Chains == {Chain(es) : es \in UNION {[1..n -> ElemPool] : n \in 1..MaxChain}}
BasePool == Atoms \cup {Chain(<<e>>) : e \in ElemPool} \cup {Chain(<<Item(Cls("A")), Attr("n")>>), Chain(<<Item(Cls("B")), Item(Str("n.*"))>>)}
SmallBase == {Cls("A"), Cls("Abs"), Str("n"), Str("n|m"), AnyP, Chain(<<Item(Cls("A")), Attr("n")>>), Chain(<<GArg(0, Cls("A"))>>),
              Chain(<<Item(Cls("Impl")), Attr("nm")>>)}
Bools == {[p |-> o, l |-> a, r |-> b] : o \in {"or", "and", "xor"}, a \in SmallBase, b \in SmallBase}
         \cup {[p |-> "not", x |-> a] : a \in BasePool}
         \cup {[p |-> "not", x |-> [p |-> o, l |-> a, r |-> b]] : o \in {"or", "and"}, a \in SmallBase, b \in {Cls("B"), Str("m")}}
         \cup {[p |-> "xor", l |-> [p |-> "xor", l |-> a, r |-> b], r |-> c] : a \in {Cls("A"), Str("n")}, b \in {Cls("Abs"), AnyP}, c \in {Str("n|m"), Cls("B")}}
Pluses == {[p |-> "plus", l |-> Chain(<<a>>), r |-> Chain(es)] : a \in {Item(Cls("A")), Item(Cls("Abs")), Attr("n")},
                es \in UNION {[1..n -> {Attr("n"), Item(Str("n|m")), Item(Cls("B")), GArg(0, AnyP)}] : n \in 1..2}}
Exprs == BasePool \cup Chains \cup Bools \cup Pluses

Locs == {[k |-> "type", t |-> t, f |-> "-", pos |-> 0] : t \in LocTypes}
        \cup {[k |-> "field", t |-> t, f |-> f, pos |-> 0] : t \in LocTypes, f \in FieldIds}
        \cup {[k |-> "param", t |-> t, f |-> "-", pos |-> n] : t \in LocTypes, n \in {0, 1}}
Stacks == UNION {[1..n -> Locs] : n \in 1..MaxStack}

(* ------------------------------ documented identities (C10) -------------------------- *)
Same(x, y) == \A stk \in Stacks : Match(x, stk) = Match(y, stk)
\* P['name'] is the same as P.name
IdItemAttr == \A f \in FieldIds : Same(Chain(<<Item(Str(f))>>), Chain(<<Attr(f)>>))
\* P[Foo] is the same as Foo predicate (and P['s'] as the string s)
IdItemAtom == \A a \in Atoms : Same(Chain(<<Item(a)>>), a)
\* P[Foo] + P.name is the same as P[Foo].name
IdPlus == \A x \in Pluses : Same(x, Chain(Elems(x)))
\* P[Foo, Bar] matches class Foo or class Bar
IdItems == \A a, b \in Atoms : Same(Chain(<<Items(<<a, b>>)>>), [p |-> "or", l |-> Chain(<<Item(a)>>), r |-> Chain(<<Item(b)>>)])
\* the combinators are the pointwise boolean operations
DeMorgan == \A a, b \in SmallBase : Same([p |-> "not", x |-> [p |-> "or", l |-> a, r |-> b]],
                                         [p |-> "and", l |-> [p |-> "not", x |-> a], r |-> [p |-> "not", x |-> b]])
XorAssoc == \A a, b, c \in {Cls("A"), Str("n"), AnyP, Cls("Abs")} :
                Same([p |-> "xor", l |-> [p |-> "xor", l |-> a, r |-> b], r |-> c], [p |-> "xor", l |-> a, r |-> [p |-> "xor", l |-> b, r |-> c]])
Identities == IdItemAttr /\ IdItemAtom /\ IdPlus /\ IdItems /\ DeMorgan /\ XorAssoc

(* ------------------------------ case-building machine -------------------------------- *)
\* one state per expression; the verdict over every stack is emitted as one record
VARIABLES st, x
Init == st = "root" /\ x = AnyP
PickExpr == /\ st = "root"
            /\ \E e \in Exprs : x' = e
            /\ st' = "expr"
Next == PickExpr

\* a fixed enumeration of the stacks, emitted once (header) so that the harness knows the order
StackSeq == SetToSeq(Stacks)
RootChecks == st = "root" => Identities
EmitHeader == st = "root" => PrintT(ToJson([header |-> TRUE, stacks |-> StackSeq]))
EmitCase == st = "expr" => PrintT(ToJson([x |-> x, m |-> [i \in 1..Len(StackSeq) |-> Match(x, StackSeq[i])]]))
=======================================================================================
