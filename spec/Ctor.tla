-------------------------------------- MODULE Ctor --------------------------------------
(***************************************************************************************)
(* How a loaded model is constructed (property C08).                                   *)
(*                                                                                     *)
(* Part 1 - the constructor call.  A signature is a sequence of parameters             *)
(*    [k |-> "PO" | "PK" | "KW", opt |-> BOOLEAN, dfl |-> "none" | "value" | "factory" | "self"]  *)
(* (positional-only / positional-or-keyword / keyword-only; "self" = a default that    *)
(* needs the instance, e.g. attrs Factory(takes_self=True): only the model itself can  *)
(* produce it, so the parameter must be left out of the call).  A configuration picks  *)
(* the optional fields skipped by name_mapping and the fields present in the input.    *)
(* A CALL PLAN says for every parameter whether it is passed and how.  Python's own    *)
(* binding rules (Binds) decide whether a plan is a legal call; the documented         *)
(* behaviour is: the constructor is called exactly once, present fields are bound to   *)
(* their loaded values, every other parameter is left to the model (or receives the    *)
(* declared default).  TLC checks that a legal plan EXISTS for every creatable         *)
(* configuration and that no legal plan exists for the refused ones.                   *)
(*                                                                                     *)
(* Part 2 - defaults.  Default tokens carry the ==/hash classes of Python (generated    *)
(* module CtorAxioms); a field absent from the input must hold a value of the SAME     *)
(* token (typed equality), never a look-alike of the same ==-class.                    *)
(***************************************************************************************)
EXTENDS CtorAxioms, Naturals, Sequences, FiniteSets, TLC, Json

CONSTANTS MaxParams, EmitCases, Part

Pos(p) == p.k \in {"PO", "PK"}
ParamSet == {[k |-> k, opt |-> FALSE, dfl |-> "none"] : k \in {"PO", "PK", "KW"}}
            \cup {[k |-> k, opt |-> TRUE, dfl |-> d] : k \in {"PO", "PK", "KW"}, d \in {"value", "factory", "self"}}
\* Python's rules for a def statement
Legal(ps) == /\ \A i, j \in 1..Len(ps) : i < j =>
                   /\ (ps[i].k = "KW" => ps[j].k = "KW")
                   /\ (ps[i].k = "PK" => ps[j].k # "PO")
                   /\ (Pos(ps[i]) /\ Pos(ps[j]) /\ ps[i].opt => ps[j].opt)
Signatures == {ps \in UNION {[1..n -> ParamSet] : n \in 1..MaxParams} : Legal(ps)}

\* adaptix treats every positional-only parameter as a required FIELD even when it has a default ("Field can not be
\* positional only and optional", model_tools/definitions.py): it can be neither skipped nor left out of the input
Optionals(ps) == {i \in 1..Len(ps) : ps[i].opt /\ ps[i].k # "PO"}
\* only the model can produce the value of these: they can never be passed explicitly when absent
Packed(ps) == {i \in 1..Len(ps) : ps[i].dfl = "self"}

\* a plan: mode[i] \in {"pos", "kw", "omit"}
Plans(ps) == [1..Len(ps) -> {"pos", "kw", "omit"}]
\* Python's binding rules for a call
Binds(ps, m) == /\ \A i \in 1..Len(ps) : /\ (m[i] = "pos" => Pos(ps[i]))
                                         /\ (m[i] = "kw" => ps[i].k # "PO")
                                         /\ (m[i] = "omit" => ps[i].opt)
                \* positional arguments fill the positional parameters from the left without gaps
                /\ \A i, j \in 1..Len(ps) : (i < j /\ m[j] = "pos") => m[i] = "pos"
\* the plan passes exactly the parameters in `pass`
Passes(ps, m, pass) == \A i \in 1..Len(ps) : (m[i] # "omit") <=> (i \in pass)

\* what must be passed: the present fields, plus absent ones whose declared default (value / factory) the loader supplies
\* itself; skipped fields and absent instance-dependent defaults are left to the constructor
MustPass(ps, skipped, present) == {i \in 1..Len(ps) : i \notin skipped /\ (i \in present \/ ps[i].dfl \in {"value", "factory"})}
\* alternatively every absent optional parameter may be left to the constructor
MayPass(ps, skipped, present) == {S \in SUBSET (1..Len(ps)) : present \subseteq S /\ S \subseteq MustPass(ps, skipped, present)}
HasPlan(ps, skipped, present) == \E S \in MayPass(ps, skipped, present) : \E m \in Plans(ps) : Binds(ps, m) /\ Passes(ps, m, S)
\* creation does not know the input: the loader exists iff every possible input has a legal call
Creatable(ps, skipped) == \A present \in SUBSET (1..Len(ps)) :
                             ({i \in 1..Len(ps) : i \notin Optionals(ps)} \subseteq present /\ present \cap skipped = {}) => HasPlan(ps, skipped, present)

VARIABLES st, sig, skipped, present, dflts
vars == <<st, sig, skipped, present, dflts>>
Init == st = "root" /\ sig = <<>> /\ skipped = {} /\ present = {} /\ dflts = <<>>
PickSig == /\ st = "root" /\ Part = 1
           /\ \E ps \in Signatures : sig' = ps
           /\ st' = "sig" /\ UNCHANGED <<skipped, present, dflts>>
PickSkip == /\ st = "sig"
            /\ \E S \in SUBSET Optionals(sig) : skipped' = S
            /\ st' = "skip" /\ UNCHANGED <<sig, present, dflts>>
PickPresent == /\ st = "skip"
               /\ \E S \in SUBSET (Optionals(sig) \ skipped) : present' = S \cup {i \in 1..Len(sig) : i \notin Optionals(sig)}
               /\ st' = "case" /\ UNCHANGED <<sig, skipped, dflts>>
\* part 2: one or two defaulted fields with tokens from the look-alike universe
PickDefaults == /\ st = "root" /\ Part = 2
                /\ \E d \in (DefaultTokens \cup FactoryTokens), e \in (DefaultTokens \cup FactoryTokens \cup {"-"}) :
                      dflts' = IF e = "-" THEN <<d>> ELSE <<d, e>>
                /\ st' = "dcase" /\ UNCHANGED <<sig, skipped, present>>
Next == PickSig \/ PickSkip \/ PickPresent \/ PickDefaults

(* ------------------------------ properties ------------------------------------------ *)
\* a legal call exists exactly for the configurations that are documented to work
PlanExistsIffCreatable == st = "case" => (Creatable(sig, skipped) => HasPlan(sig, skipped, present))
\* ... and whenever the generated call must differ from "all positional", keywords are available
\* with positional-only parameters always passed, no configuration is uncreatable: keywords are available for every
\* parameter behind a gap
NoPlanOnlyForPosOnlyGap == st = "skip" => Creatable(sig, skipped)
\* a look-alike is never a substitute: tokens of one ==-class are pairwise typed-different
LookAlikesDiffer == \A a, b \in DefaultTokens : (a # b /\ DEqClass[a] = DEqClass[b]) => DType[a] # DType[b] \/ a \in NanTokens

Expect == [i \in 1..Len(sig) |-> IF i \in present THEN "loaded" ELSE "default"]
CaseRecord == [sig |-> sig, skipped |-> skipped, present |-> present, creatable |-> Creatable(sig, skipped), expect |-> Expect]
DCaseRecord == [dflts |-> dflts, confusable |-> Len(dflts) = 2 /\ dflts[1] \in DefaultTokens /\ dflts[2] \in DefaultTokens
                                               /\ dflts[1] # dflts[2] /\ DEqClass[dflts[1]] = DEqClass[dflts[2]]]
EmitCase == (st = "case" /\ EmitCases => PrintT(ToJson(CaseRecord))) /\ (st = "dcase" /\ EmitCases => PrintT(ToJson(DCaseRecord)))
=======================================================================================
