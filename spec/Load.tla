------------------------------------- MODULE Load -------------------------------------
(***************************************************************************************)
(* What a loader produced for type T must do with datum d (properties C02 C04 C05 C06  *)
(* C07), transcribed from docs/loading-and-dumping/specific-types-behavior.rst.        *)
(* Constant-level operators only:                                                      *)
(*    Acc(T, d, s)   the set of acceptable results (empty = the datum must be rejected *)
(*                   with a LoadError); a set because the documentation leaves the     *)
(*                   winner among overlapping union / Literal cases open               *)
(*    Errs(T, d, s)  when rejected: the complete set of trails (paths into the datum)  *)
(*                   of the independently invalid sub-values                           *)
(*    Undef(T, d, s) the documentation does not decide this case (only "no foreign     *)
(*                   exception" is checked for it)                                     *)
(* s = strict_coercion.  debug_trail is not a parameter: by C06 it may only select how *)
(* Errs is reported (all of it / one member with trail / one member without trail).    *)
(*                                                                                     *)
(* Types   [k |-> kind, a |-> <<argument types>>, v |-> <<literal members (tokens)>>]  *)
(* Data    [c |-> "atom", a |-> token] | [c |-> container kind, xs |-> <<data>>]       *)
(*         | [c |-> "dict"|"cmap", ks |-> <<key data>>, vs |-> <<value data>>]         *)
(* Results like data, plus [c |-> "conv", f |-> constructor, a |-> token] = the value  *)
(*         the CPython constructor f yields for the token (evaluated by gamma)         *)
(***************************************************************************************)
EXTENDS PyAxioms, TLC

Atom(t)      == [c |-> "atom", a |-> t]
Conv(f, t)   == [c |-> "conv", f |-> f, a |-> t]
IsAtom(d)    == d.c = "atom"
SeqKinds     == {"list", "tuple", "set", "frozenset", "deque", "gen", "citer"}   \* iterable data that is neither str nor Mapping
MapKinds     == {"dict", "cmap"}                                               \* Mapping data (dict / another Mapping class)
SizedKinds   == {"list", "tuple", "set", "frozenset", "deque"}

(* ------------------------------ scalar rules ---------------------------------------- *)
\* [ctor, strict origins, lax origins ("ANY" = whatever the constructor takes), same (result is the datum itself when its type is in `same`)]
AnyT == {"ANY"}
MoreStringKinds == {"PurePath", "PurePosixPath", "PosixPath", "PureWindowsPath", "PathLike",
                    "IPv6Address", "IPv4Network", "IPv6Network", "IPv4Interface", "IPv6Interface"}
ScalarRule(k) ==
  CASE k = "int"       -> [f |-> "int",       so |-> {"int"},                  lo |-> AnyT, same |-> {"int"}]
    [] k = "float"     -> [f |-> "float",     so |-> {"float", "int"},         lo |-> AnyT, same |-> {"float"}]
    [] k = "str"       -> [f |-> "str",       so |-> {"str"},                  lo |-> AnyT, same |-> {"str"}]
    [] k = "bool"      -> [f |-> "bool",      so |-> {"bool"},                 lo |-> AnyT, same |-> {"bool"}]
    [] k = "Decimal"   -> [f |-> "Decimal",   so |-> {"str", "Decimal"},       lo |-> AnyT, same |-> {"Decimal"}]
    [] k = "Fraction"  -> [f |-> "Fraction",  so |-> {"str", "Fraction"},      lo |-> AnyT, same |-> {"Fraction"}]
    [] k = "complex"   -> [f |-> "complex",   so |-> {"str", "complex"},       lo |-> AnyT, same |-> {"complex"}]
    [] k = "None"      -> [f |-> "id",        so |-> {"NoneType"},             lo |-> {"NoneType"}, same |-> {"NoneType"}]
    [] k = "Any"       -> [f |-> "id",        so |-> AnyT,                     lo |-> AnyT, same |-> AnyT]
    [] k = "bytes"     -> [f |-> "b64",       so |-> {"str"},                  lo |-> {"str"}, same |-> {}]
    [] k = "bytearray" -> [f |-> "b64ba",     so |-> {"str"},                  lo |-> {"str"}, same |-> {}]
    [] k = "date"      -> [f |-> "date",      so |-> {"str"},                  lo |-> {"str"}, same |-> {}]
    [] k = "time"      -> [f |-> "time",      so |-> {"str"},                  lo |-> {"str"}, same |-> {}]
    [] k = "datetime"  -> [f |-> "datetime",  so |-> {"str"},                  lo |-> {"str"}, same |-> {}]
    [] k = "timedelta" -> [f |-> "timedelta", so |-> {"int", "float", "Decimal"}, lo |-> {"int", "float", "Decimal"}, same |-> {}]
    [] k = "UUID"      -> [f |-> "UUID",      so |-> {"str"},                  lo |-> {"str"}, same |-> {}]
    [] k = "Path"      -> [f |-> "Path",      so |-> {"str"},                  lo |-> {"str"}, same |-> {}]
    [] k = "IPv4Address" -> [f |-> "IPv4Address", so |-> {"str"},              lo |-> {"str"}, same |-> {}]
    [] k = "Pattern"   -> [f |-> "re",        so |-> {"str"},                  lo |-> {"str"}, same |-> {}]
    \* "Any and object: value is passed as is";  "LiteralString: same behavior as builtin one's of str type";  bytes-like
    \* "exact list: bytes, bytearray, ByteString";  path-like and IP "exact lists" ("PathLike[str] loader produces Path instance")
    [] k = "object"    -> [f |-> "id",        so |-> AnyT,                     lo |-> AnyT, same |-> AnyT]
    [] k = "LiteralString" -> [f |-> "str",   so |-> {"str"},                  lo |-> AnyT, same |-> {"str"}]
    [] k = "ByteString" -> [f |-> "b64",      so |-> {"str"},                  lo |-> {"str"}, same |-> {}]
    \* "BytesIO and IO[bytes]: value is represented as base64 encoded string" (both load to a BytesIO)
    [] k \in {"BytesIO", "IObytes"} -> [f |-> "b64bio", so |-> {"str"},          lo |-> {"str"}, same |-> {}]
    [] k \in MoreStringKinds -> [f |-> (IF k = "PathLike" THEN "Path" ELSE k), so |-> {"str"}, lo |-> {"str"}, same |-> {}]
    \* the configurable providers: "to load and dump datetime to / from UNIX timestamp ... datetime_by_timestamp" [tz = UTC],
    \* "date from UNIX timestamp ... date_by_timestamp", "to / from specific format ... datetime_by_format"
    [] k = "datetime_ts"  -> [f |-> "ts",   so |-> {"int", "float"}, lo |-> {"int", "float"}, same |-> {}]
    [] k = "date_ts"      -> [f |-> "dats", so |-> {"int", "float"}, lo |-> {"int", "float"}, same |-> {}]
    [] k = "datetime_fmt" -> [f |-> "fmt",  so |-> {"str"},          lo |-> {"str"},          same |-> {}]
ScalarKinds == {"int", "float", "str", "bool", "Decimal", "Fraction", "complex", "None", "Any", "bytes", "bytearray",
                "date", "time", "datetime", "timedelta", "UUID", "Path", "IPv4Address", "Pattern",
                "object", "LiteralString", "ByteString", "BytesIO", "IObytes", "datetime_ts", "date_ts", "datetime_fmt"} \cup MoreStringKinds
\* "Loader takes any string accepted by the constructor": whether a NON-string the raw constructor happens to take
\* (IPv4Address(1), UUID/Path given other objects) is accepted is not decided by the documentation
StringOnlyKinds == {"UUID", "Path", "IPv4Address", "datetime_fmt"} \cup MoreStringKinds
\* "UNIX timestamp": an int or a float; whether another number the raw function happens to take (True, Decimal(1)) is one is not decided
NumberOnlyKinds == {"datetime_ts", "date_ts"}

OriginOk(k, t, s) == LET r == ScalarRule(k)
                         o == IF s THEN r.so ELSE r.lo
                     IN  o = AnyT \/ PyTypeOf[t] \in o

ScalarAcc(k, d, s) ==
  IF ~IsAtom(d) THEN (IF k \in {"Any", "object"} THEN {d}
                      ELSE IF ~s /\ k = "bool" THEN {[c |-> "truth", a |-> "x"]}     \* bool(container) is its truthiness
                      ELSE IF ~s /\ k \in {"str", "LiteralString"} THEN {[c |-> "strof", a |-> "x"]}      \* str(container)
                      ELSE {})
  ELSE LET r == ScalarRule(k) IN
       IF ~OriginOk(k, d.a, s) THEN {}
       ELSE IF d.a \notin CtorAccepts[r.f] THEN {}
       ELSE IF r.same = AnyT \/ PyTypeOf[d.a] \in r.same THEN {d}
       ELSE {Conv(r.f, d.a)}

ScalarUndef(k, d, s) == /\ IsAtom(d)
                        /\ \/ (k \in StringOnlyKinds /\ PyTypeOf[d.a] # "str")
                           \/ (k \in NumberOnlyKinds /\ PyTypeOf[d.a] \notin {"int", "float"})
                           \/ (d.a \in SubclassAtoms /\ k \notin {"Any", "object"})     \* the rules name the classes, not their subclasses

(* ------------------------------ iterables ------------------------------------------- *)
\* "If strict_coercion is enabled, the loader takes any iterable excluding str and Mapping.
\*  If strict_coercion is disabled, any iterable are accepted."
IterOk(d, s) == \/ d.c \in SeqKinds
                \/ (~s /\ d.c \in MapKinds)
                \/ (~s /\ IsAtom(d) /\ d.a = "s_empty")
\* iterating a non-empty str / bytes-like atom yields characters / ints that are outside the token universe
IterUndef(d, s) == /\ IsAtom(d)
                   /\ \/ (~s /\ d.a \in StrLikeAtoms /\ d.a # "s_empty")          \* (strict: a str - of whatever class - is excluded)
                      \/ PyTypeOf[d.a] \in {"bytes", "bytearray"}
                      \/ d.a \in OtherIterableAtoms          \* e.g. an IPv4Network yields its addresses
Items(d) == IF d.c \in SeqKinds THEN d.xs ELSE IF d.c \in MapKinds THEN d.ks ELSE <<>>

\* type constructor -> concrete container built ("a minimal suitable type will be used" for abstract ones)
IterImpl(k) == CASE k \in {"list", "MutableSequence"} -> "list"
                 [] k \in {"tuple_var", "Iterable", "Sequence", "Collection", "Reversible"} -> "tuple"
                 [] k \in {"set", "MutableSet"} -> "set"
                 [] k \in {"frozenset", "AbstractSet"} -> "frozenset"
                 [] k = "deque" -> "deque"
IterKinds == {"list", "MutableSequence", "tuple_var", "Iterable", "Sequence", "Collection", "Reversible", "set",
              "MutableSet", "frozenset", "AbstractSet", "deque"}
DictKinds == {"dict", "Mapping", "MutableMapping", "defaultdict"}
DictImpl(k) == IF k = "defaultdict" THEN "defaultdict" ELSE "dict"

RECURSIVE SeqProd(_)
SeqProd(ss) == IF ss = <<>> THEN {<<>>}
               ELSE {<<h>> \o t : h \in Head(ss), t \in SeqProd(Tail(ss))}

(* ------------------------------ literal --------------------------------------------- *)
TypedEq(t, u) == t = u                               \* same token = same type and equal value
PyEq(t, u)    == EqClass[t] = EqClass[u] /\ t # "f_nan" /\ u # "f_nan" /\ t # "d_nan" /\ u # "d_nan"
BoolIntMix(t, u) == (PyTypeOf[t] = "bool") # (PyTypeOf[u] = "bool")

LitIdx(T) == 1..Len(T.v)
\* "Enum instances will be loaded via its loaders [exact value].  bytes instances will be loaded via its loaders as well [base64].
\*  Enum loaders have a higher priority over others, that is, they will be applied first."
IsEnumTok(t)  == t \in DOMAIN EnumValueTok
IsBytesTok(t) == PyTypeOf[t] = "bytes"
EnumHits(T, t)  == {i \in LitIdx(T) : IsEnumTok(T.v[i]) /\ TypedEq(EnumValueTok[T.v[i]], t)}
BytesHits(T, t) == {i \in LitIdx(T) : IsBytesTok(T.v[i]) /\ t \in DOMAIN CtorTok["b64"] /\ PyTypeOf[t] = "str" /\ CtorTok["b64"][t] = T.v[i]}
\* "Loader accepts only values listed in Literal.  If strict_coercion is enabled, the loader will distinguish equal
\*  bool and int instances, otherwise, they will be considered as same values."
LitAcc(T, d, s) ==
  IF ~IsAtom(d) THEN {}
  ELSE IF EnumHits(T, d.a) # {} THEN {Atom(T.v[i]) : i \in EnumHits(T, d.a)}
  ELSE IF BytesHits(T, d.a) # {} THEN {Atom(T.v[i]) : i \in BytesHits(T, d.a)} \cup (IF \E i \in LitIdx(T) : TypedEq(T.v[i], d.a) THEN {d} ELSE {})
  ELSE IF \E i \in LitIdx(T) : TypedEq(T.v[i], d.a) THEN {d}
  ELSE LET eqs == {i \in LitIdx(T) : PyEq(T.v[i], d.a)} IN
       IF eqs = {} THEN {}
       ELSE IF s /\ \A i \in eqs : BoolIntMix(T.v[i], d.a) THEN {}
       ELSE {d} \cup {Atom(T.v[i]) : i \in eqs}
\* an equal value of another non-bool type (2.0 for Literal[2]) -- "listed"? the documentation speaks about bool/int only
\* ... "If the input value could be interpreted as several Literal members, the result will be undefined"; a datum that is
\* only ==-equal to the value of an Enum member (5.0 for value 5) is a matter of the enum loader (C18), not decided here
LitUndef(T, d, s) ==
  /\ IsAtom(d)
  /\ \/ /\ ~\E i \in LitIdx(T) : TypedEq(T.v[i], d.a)
        /\ \E i \in LitIdx(T) : PyEq(T.v[i], d.a) /\ ~(s /\ BoolIntMix(T.v[i], d.a))
        /\ s
     \/ \E i \in LitIdx(T) : IsEnumTok(T.v[i]) /\ PyEq(EnumValueTok[T.v[i]], d.a) /\ ~TypedEq(EnumValueTok[T.v[i]], d.a)
     \/ (EnumHits(T, d.a) # {} /\ \E i \in LitIdx(T) : PyEq(T.v[i], d.a))

(* ------------------------------ user supplied loaders ------------------------------- *)
\* [k |-> "user", v |-> <<f>>]: a type served by the recipe  loader(T, f)  with f a plain CPython constructor (the common
\* `loader(T, int)`): accepted data give f(datum); for every other datum the USER code raises an exception that is not a
\* LoadError.  "A plain ExceptionGroup or a bare non-LoadError may escape only when user-supplied code raised a
\* non-LoadError itself" - and then loading fails in every debug mode (Unexp below), whatever else is wrong with the datum.
UserAcc(T, d) == IF IsAtom(d) /\ d.a \in CtorAccepts[T.v[1]] THEN {Conv(T.v[1], d.a)} ELSE {}

(* ------------------------------ the loader relation --------------------------------- *)
RECURSIVE Acc(_, _, _), Undef(_, _, _), Errs(_, _, _), Unexp(_, _, _)

\* a loaded value that can be a member of a set / a key of a dict (Python: hashable); an input whose elements load to
\* values that can not is not a representation of any set - "every unacceptable input datum ... unhashable values"
RECURSIVE CanBeMember(_)
CanBeMember(v) == CASE v.c = "atom" -> Hashable[v.a]
                    [] v.c = "conv" -> IF v.f = "id" THEN Hashable[v.a] ELSE v.f \notin {"b64ba"}      \* the constructors build hashable values, bytearray apart
                    [] v.c \in {"tuple", "frozenset"} -> \A i \in 1..Len(v.xs) : CanBeMember(v.xs[i])
                    [] OTHER -> FALSE
AllHashable(q) == \A i \in 1..Len(q) : CanBeMember(q[i])

\* the datum reaches user code that raises a non-LoadError: the call fails, in every mode
Unexp(T, d, s) ==
  CASE T.k = "user" -> UserAcc(T, d) = {}
    [] T.k \in ScalarKinds \cup {"literal"} -> FALSE
    [] T.k \in IterKinds -> IterOk(d, s) /\ \E i \in 1..Len(Items(d)) : Unexp(T.a[1], Items(d)[i], s)
    [] T.k = "tuple_fix" -> IterOk(d, s) /\ Len(Items(d)) = Len(T.a) /\ \E i \in 1..Len(T.a) : Unexp(T.a[i], Items(d)[i], s)
    [] T.k \in DictKinds -> d.c \in MapKinds /\ \E i \in 1..Len(d.ks) : Unexp(T.a[1], d.ks[i], s) \/ Unexp(T.a[2], d.vs[i], s)
    \* an unexpected exception is not swallowed, so the cases behind it are never reached; the cases are tried in the order of
    \* the NORMALISED union (type_tools/normalize_type.py sorts them by the text of their origin), which the documentation
    \* does not promise - so the outcome is decided only when no case accepts (then every mode fails) and is left open
    \* (Undef) when one case accepts and another one raises
    [] T.k = "union" -> (\E i \in 1..Len(T.a) : Unexp(T.a[i], d, s)) /\ (\A j \in 1..Len(T.a) : Acc(T.a[j], d, s) = {})
    [] T.k \in {"newtype", "annotated"} -> Unexp(T.a[1], d, s)

Acc(T, d, s) ==
  CASE T.k \in ScalarKinds -> ScalarAcc(T.k, d, s)
    [] T.k = "user" -> UserAcc(T, d)
    [] T.k \in IterKinds ->
         IF ~IterOk(d, s) THEN {}
         ELSE LET xs == Items(d) IN
              {[c |-> IterImpl(T.k), xs |-> r] :
                  r \in {q \in SeqProd([i \in 1..Len(xs) |-> Acc(T.a[1], xs[i], s)]) : IterImpl(T.k) \in {"set", "frozenset"} => AllHashable(q)}}
    [] T.k \in DictKinds ->
         IF d.c \notin MapKinds THEN {}
         ELSE {[c |-> DictImpl(T.k), ks |-> rk, vs |-> rv] :
                 rk \in {q \in SeqProd([i \in 1..Len(d.ks) |-> Acc(T.a[1], d.ks[i], s)]) : AllHashable(q)},
                 rv \in SeqProd([i \in 1..Len(d.vs) |-> Acc(T.a[2], d.vs[i], s)])}
    [] T.k = "tuple_fix" ->
         IF ~IterOk(d, s) THEN {}
         ELSE LET xs == Items(d) IN
              IF Len(xs) # Len(T.a) THEN {}
              ELSE {[c |-> "tuple", xs |-> r] : r \in SeqProd([i \in 1..Len(xs) |-> Acc(T.a[i], xs[i], s)])}
    \* "a value of the first loader that does not raise"; overlap undefined
    [] T.k = "union" -> IF \E i \in 1..Len(T.a) : Unexp(T.a[i], d, s) /\ \A j \in 1..Len(T.a) : Acc(T.a[j], d, s) = {} THEN {}
                        ELSE UNION {Acc(T.a[i], d, s) : i \in 1..Len(T.a)}
    [] T.k = "literal" -> LitAcc(T, d, s)
    [] T.k \in {"newtype", "annotated"} -> Acc(T.a[1], d, s)              \* treated as origin / wrapped type

Undef(T, d, s) ==
  CASE T.k \in ScalarKinds -> ScalarUndef(T.k, d, s)
    [] T.k = "user" -> FALSE
    [] T.k \in IterKinds \cup {"tuple_fix"} ->
         \/ IterUndef(d, s)
         \* which element of an unordered datum meets which position of a constant-length tuple is not defined
         \/ (T.k = "tuple_fix" /\ d.c \in {"set", "frozenset"} /\ Len(d.xs) > 1)
         \/ /\ IterOk(d, s)
            /\ \E i \in 1..Len(Items(d)) :
                  IF T.k = "tuple_fix" THEN (i <= Len(T.a) /\ Undef(T.a[i], Items(d)[i], s))
                  ELSE Undef(T.a[1], Items(d)[i], s)
    [] T.k \in DictKinds ->
         /\ d.c \in MapKinds
         /\ \/ \E i \in 1..Len(d.ks) : Undef(T.a[1], d.ks[i], s) \/ Undef(T.a[2], d.vs[i], s)
            \* two input keys that may load to equal keys collide: which value survives is not documented
            \/ \E i, j \in 1..Len(d.ks) : i < j /\ Acc(T.a[1], d.ks[i], s) # {} /\ Acc(T.a[1], d.ks[j], s) # {}
                                             /\ ~(Acc(T.a[1], d.ks[i], s) = {d.ks[i]} /\ Acc(T.a[1], d.ks[j], s) = {d.ks[j]})
    [] T.k = "union" -> \/ \E i \in 1..Len(T.a) : Undef(T.a[i], d, s)
                        \/ (\E i \in 1..Len(T.a) : Unexp(T.a[i], d, s)) /\ (\E j \in 1..Len(T.a) : Acc(T.a[j], d, s) # {})
    [] T.k = "literal" -> LitUndef(T, d, s)
    [] T.k \in {"newtype", "annotated"} -> Undef(T.a[1], d, s)

\* trail steps: [s |-> "idx", i |-> position in the iteration] | [s |-> "val", i |-> n] value under the n-th key
\*              | [s |-> "key", i |-> n] the n-th key itself (ItemKey)
Rebase(step, ps) == {<<step>> \o p : p \in ps}
Here == {<<>>}

Errs(T, d, s) ==
  IF Acc(T, d, s) # {} \/ Unexp(T, d, s) THEN {}
  ELSE CASE T.k \in IterKinds /\ IterOk(d, s) ->
              LET sub == UNION {Rebase([s |-> "idx", i |-> i], Errs(T.a[1], Items(d)[i], s)) : i \in 1..Len(Items(d))}
              IN IF sub = {} THEN Here ELSE sub          \* every element loads, the collection can not hold the results
         [] T.k = "tuple_fix" /\ IterOk(d, s) /\ Len(Items(d)) = Len(T.a) ->
              UNION {Rebase([s |-> "idx", i |-> i], Errs(T.a[i], Items(d)[i], s)) : i \in 1..Len(T.a)}
         [] T.k \in DictKinds /\ d.c \in MapKinds ->
              LET sub == UNION {Rebase([s |-> "key", i |-> i], Errs(T.a[1], d.ks[i], s))
                                \cup Rebase([s |-> "val", i |-> i], Errs(T.a[2], d.vs[i], s)) : i \in 1..Len(d.ks)}
              IN IF sub = {} THEN Here ELSE sub
         [] T.k \in {"newtype", "annotated"} -> Errs(T.a[1], d, s)
         [] OTHER -> Here          \* the node itself is the offending sub-value (wrong kind, bad scalar, no union case, bad length)

Outcome(T, d, s) == [acc |-> Acc(T, d, s), errs |-> Errs(T, d, s), undef |-> Undef(T, d, s), unexp |-> Unexp(T, d, s)]

(* ------------------------------ properties of the rule set (checked by MC_Load) ------ *)
\* the rules leave no datum unclassified and never both accept and blame
Total(T, d, s) == /\ (Acc(T, d, s) = {} /\ ~Unexp(T, d, s)) <=> (Errs(T, d, s) # {})
                  /\ Unexp(T, d, s) => Acc(T, d, s) = {}

\* does laxness make the cases of some union inside T overlap on d?  (then "any accepting case may win")
RECURSIVE HasUnion(_)
HasUnion(T) == T.k \in {"union", "literal"} \/ \E i \in 1..Len(T.a) : HasUnion(T.a[i])

\* C07: strict only narrows -- everything strict accepts, lax accepts, with the same result unless a union is involved
StrictSubLax(T, d) ==
  LET st == Acc(T, d, TRUE)
      lx == Acc(T, d, FALSE)
  IN  st # {} => /\ lx # {}
                 /\ (~HasUnion(T) => st \subseteq lx)

\* C07: strict mode never accepts an atom whose python type is outside the allowed strict origins
StrictOriginsOnly(T, d) ==
  (T.k \in ScalarKinds /\ IsAtom(d) /\ Acc(T, d, TRUE) # {}) =>
      (ScalarRule(T.k).so = AnyT \/ PyTypeOf[d.a] \in ScalarRule(T.k).so)
StrictNoStrNoMapping(T, d) ==
  (T.k \in IterKinds \cup {"tuple_fix"} /\ Acc(T, d, TRUE) # {}) =>
      (d.c \in SeqKinds)
=======================================================================================
