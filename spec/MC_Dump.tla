------------------------------------ MODULE MC_Dump ------------------------------------
(***************************************************************************************)
(* Case-building machine over Dump.tla: TLC enumerates (type, value) pairs with        *)
(* v \in Val(T), checks on each that the documented representation rules are mutually  *)
(* inverse (C01 on the model, also after JSON travel) and emits the case with its      *)
(* documented outer form; the harness dumps the concretised value with the real        *)
(* library in every mode, compares the outer form (C02) and loads it back (C01).       *)
(***************************************************************************************)
EXTENDS Dump, TypePools, Json

CONSTANTS NestTokens,   \* value tokens used inside containers
          Width,
          EmitCases

NaNs == {"f_nan", "d_nan"}          \* x = x fails for them: not in the value universe of C01
ScalarVals(k, pool) ==
  IF k \in {"Any", "object"} THEN {Atom(t) : t \in {"i1", "s_a", "none"} \cap pool}
  ELSE {Atom(t) : t \in {u \in pool : PyTypeOf[u] = ValuePyType[k]} \ NaNs}

SeqsUpTo(S, n) == UNION {[1..m -> S] : m \in 0..n}
DistinctVals(xs) == \A i, j \in 1..Len(xs) : i # j => ~(IsAtom(xs[i]) /\ IsAtom(xs[j]) /\ EqClass[xs[i].a] = EqClass[xs[j].a]) /\ xs[i] # xs[j]
HashableVal(v) == IF IsAtom(v) THEN Hashable[v.a] ELSE v.c \in {"tuple", "frozenset"}

RECURSIVE Val(_, _)
Val(T, pool) ==
  CASE T.k \in ScalarKinds -> ScalarVals(T.k, pool)
    [] T.k \in IterKinds ->
         LET kind == IterImpl(T.k)
             elems == Val(T.a[1], NestTokens)
         IN  {[c |-> kind, xs |-> xs] : xs \in {x \in SeqsUpTo(elems, Width) :
                  kind \in {"set", "frozenset"} => (DistinctVals(x) /\ \A i \in 1..Len(x) : HashableVal(x[i]))}}
    [] T.k \in DictKinds ->
         LET ks == {x \in SeqsUpTo(Val(T.a[1], NestTokens), Width) : DistinctVals(x) /\ \A i \in 1..Len(x) : HashableVal(x[i])}
             vs == SeqsUpTo(Val(T.a[2], NestTokens), Width)
         IN  UNION {{[c |-> DictImpl(T.k), ks |-> k, vs |-> w] : w \in {w2 \in vs : Len(w2) = Len(k)}} : k \in ks}
    [] T.k = "tuple_fix" ->
         IF Len(T.a) = 0 THEN {[c |-> "tuple", xs |-> <<>>]}
         ELSE IF Len(T.a) = 1 THEN {[c |-> "tuple", xs |-> <<x>>] : x \in Val(T.a[1], NestTokens)}
         ELSE {[c |-> "tuple", xs |-> <<x, y>>] : x \in Val(T.a[1], NestTokens), y \in Val(T.a[2], NestTokens)}
    [] T.k = "union" -> UNION {Val(T.a[i], pool) : i \in 1..Len(T.a)}
    [] T.k = "literal" -> {Atom(T.v[i]) : i \in 1..Len(T.v)}
    [] T.k \in {"newtype", "annotated"} -> Val(T.a[1], pool)
ValOf(T) == IF T.k = "IObytes" THEN {} ELSE {v \in Val(T, Tokens) : v.c \in {"dict", "defaultdict"} => Len(v.ks) = Len(v.vs)}

\* values that are not of the exact class of any case: dumped through the nearest ancestor (no round trip is promised)
\* a stream dumped as IO[bytes] comes back as a BytesIO: the outer form is checked, no round trip is promised
StreamVals(T) == IF T.k = "IObytes" THEN ScalarVals("IObytes", Tokens) ELSE {}
SubclassVals(T) == IF T.k = "union" /\ \E i \in 1..Len(T.a) : T.a[i].k = "int" /\ ~\E j \in 1..Len(T.a) : T.a[j].k = "bool"
                   THEN {Atom("bT")} ELSE {}

\* the same elements held by another runtime container than the minimal one: any iterable is dumped to the same outer form
AltKinds == {"list", "tuple", "deque", "gen"}
AltKindVals(T) == IF T.k \in IterKinds
                  THEN {[c |-> k, xs |-> x.xs] : k \in AltKinds \ {IterImpl(T.k)}, x \in {y \in ValOf(T) : Len(y.xs) > 0}}
                  ELSE {}

Probes == {Atom(t) : t \in Tokens} \cup {[c |-> "list", xs |-> <<>>], [c |-> "list", xs |-> <<Atom("i1")>>],
                                        [c |-> "dict", ks |-> <<>>, vs |-> <<>>], [c |-> "dict", ks |-> <<Atom("s_a")>>, vs |-> <<Atom("i1")>>]}

VARIABLES st, T, v, sub
vars == <<st, T, v, sub>>
Init == st = "root" /\ T = Sc("Any") /\ v = Atom("none") /\ sub = FALSE
PickType == /\ st = "root"
            /\ \E t \in AllTypes : T' = t
            /\ st' = "type" /\ v' = v /\ sub' = sub
PickValue == /\ st = "type"
             /\ \/ \E x \in ValOf(T) : v' = x /\ sub' = FALSE
                \/ \E x \in SubclassVals(T) \cup AltKindVals(T) \cup StreamVals(T) : v' = x /\ sub' = TRUE
             /\ st' = "case" /\ T' = T
Next == PickType \/ PickValue

IsCase == st = "case"
\* C01 on the documented rules, for both coercion modes, wherever the unions involved do not overlap
RoundTripHolds == (IsCase /\ ~sub) => \A s \in BOOLEAN : NoOverlap(T, s, Probes) => RoundTrip(T, v, s)
RoundTripJsonHolds == (IsCase /\ ~sub) => \A s \in BOOLEAN : NoOverlap(T, s, Probes) => RoundTripJson(T, v, s)
DumperExists == IsCase => DumpVal(T, v).c # "nodumper"

CaseRecord == [T |-> T, v |-> v, sub |-> sub, out |-> DumpVal(T, v),
               rtS |-> NoOverlap(T, TRUE, Probes), rtL |-> NoOverlap(T, FALSE, Probes)]
EmitCase == IsCase /\ EmitCases => PrintT(ToJson(CaseRecord))
=======================================================================================
