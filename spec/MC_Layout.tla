----------------------------------- MODULE MC_Layout -----------------------------------
(***************************************************************************************)
(* Case-building machine over Layout.tla.  A state is a program (shape, overlays);     *)
(* PushOverlay puts one more name_mapping at the FRONT of the recipe, so the effect of *)
(* one more provider is a transition.  TLC checks the model-level properties on every  *)
(* program and emits it with the model's verdicts for its own probe-input family.      *)
(* The program space is explored in slices (constant Slice).                           *)
(***************************************************************************************)
EXTENDS Layout, Kinds, Json

CONSTANTS Kind,         \* the model kind the logical shapes are declared in (Kinds.tla): "dataclass" stands for every total kind
          Slice,        \* "A" map x style x trim | "B" skip x only x None | "C" extra policies | "D" lists | "E" omit_default | "F" stacking
                        \* "G" output-only fields (in the middle / at the end of the definition order) x as_list x map x skip x omit x forbid
          MaxOverlays,
          EmitCases

Id(w, us, lead) == [w |-> w, us |-> us, lead |-> lead]
IdA == Id(<<"a">>, 0, 0)
IdB == Id(<<"b">>, 1, 0)          \* b_  (trailing underscore)
IdC == Id(<<"c", "d">>, 0, 0)     \* c_d (two words, visible to name styles)
IdR == Id(<<"rest">>, 0, 0)
IdP == Id(<<"p">>, 0, 1)          \* _p  (private)
FldD(id, req, ty, dir) == FieldOf(Kind, [id |-> id, req |-> req, ty |-> ty, dir |-> dir])
Fld(id, req, ty) == FldD(id, req, ty, "io")

Shapes3 == {<<Fld(IdA, TRUE, "int"), Fld(IdB, r2, "str"), Fld(IdC, r3, "int")>> : r2 \in BOOLEAN, r3 \in BOOLEAN}
Shapes4 == {<<Fld(IdA, TRUE, "int"), Fld(IdB, r2, "str"), Fld(IdC, FALSE, "int"), Fld(IdR, TRUE, "any")>> : r2 \in BOOLEAN}
ShapesP == {<<Fld(IdA, TRUE, "int"), Fld(IdB, FALSE, "str"), Fld(IdP, r3, "int")>> : r3 \in BOOLEAN}
\* an output-only field b_ between two constructor parameters, and after them
ShapesG == {<<Fld(IdA, TRUE, "int"), FldD(IdB, FALSE, "str", "out"), Fld(IdC, r3, "int")>> : r3 \in BOOLEAN}
           \cup {<<Fld(IdA, TRUE, "int"), Fld(IdC, r3, "int"), FldD(IdB, FALSE, "str", "out")>> : r3 \in BOOLEAN}
\* a field whose dumped form is not the value itself ("dec": Decimal <-> str), with and without a default: "equals its default" is
\* a statement about the field's VALUE, not about its representation
ShapesE == {<<Fld(IdA, TRUE, "int"), Fld(IdB, r2, "dec"), Fld(IdC, r3, "int")>> : r2 \in BOOLEAN, r3 \in BOOLEAN}
           \* ... and a defaulted field that holds a mutable container (its default comes from a factory)
           \cup {<<Fld(IdA, TRUE, "int"), Fld(IdB, FALSE, "str"), Fld(IdC, FALSE, "any")>>}
Shapes == CASE Slice = "C" -> Shapes4
            [] Slice = "E" -> Shapes3 \cup ShapesE
            [] Slice = "G" -> ShapesG
            [] Slice = "B" -> Shapes3 \cup ShapesP
            [] OTHER -> Shapes3
Ids(sh) == {sh[i].id : i \in 1..Len(sh)}

PSpec(p) == [t |-> "path", p |-> p]
NoneSpec == [t |-> "none", p |-> <<>>]
Entry(S, spec) == [sel |-> SetSel(S), spec |-> spec]
K1 == OpKey("k1")
K2 == OpKey("k2")
N  == OpKey("n")

FlatSpecs == {PSpec(<<K1>>), PSpec(<<Ell>>), PSpec(<<N, K1>>), PSpec(<<N, Ell>>), PSpec(<<N, K2, Ell>>)}
ListSpecs == {PSpec(<<IdxKey(0)>>), PSpec(<<IdxKey(2)>>), PSpec(<<N, IdxKey(1)>>), PSpec(<<IdxKey(1), K1>>), PSpec(<<IdxKey(1), Ell>>)}
\* maps: one or two dict-form entries, or one entry selecting several fields (pair form: regex / type predicate)
OneEntryMaps(ids, specs) == {<<Entry({i}, s)>> : i \in ids, s \in specs}
TwoEntryMaps(ids, specs) == {<<Entry({i}, s), Entry({j}, t)>> : i \in ids, j \in ids, s \in specs, t \in specs}
MultiMaps(ids, specs) == {<<Entry(S, s)>> : S \in {T \in SUBSET ids : Cardinality(T) = 2}, s \in specs}
Opt(S) == {Nil} \cup {Some(x) : x \in S}
NoOv == [map |-> Nil, style |-> Nil, trim |-> Nil, skip |-> Nil, only |-> Nil, aslist |-> Nil, omit |-> Nil, extra_in |-> Nil, extra_out |-> Nil]
Xp(p, f) == [p |-> p, f |-> f]

Overlays(sh) ==
  LET ids == Ids(sh) IN
  CASE Slice = "A" ->
         {[NoOv EXCEPT !.map = m, !.style = s, !.trim = t] :
            m \in Opt(OneEntryMaps(ids, FlatSpecs) \cup MultiMaps(ids, {PSpec(<<N, Ell>>), PSpec(<<K1>>), PSpec(<<Ell>>)})
                      \cup {<<Entry({IdA}, PSpec(<<N, K1>>)), Entry({IdC}, PSpec(<<N, K2>>))>>, <<Entry({IdA}, PSpec(<<K1>>)), Entry({IdA, IdB}, PSpec(<<N, Ell>>))>>}),
            \* "other" stands for any one of the 16 documented styles (chosen per program by the concretisation)
            s \in Opt({"upper", "camel", "other"}), t \in Opt(BOOLEAN)}
    [] Slice = "B" ->
         {[NoOv EXCEPT !.map = m, !.skip = sk, !.only = on] :
            m \in Opt({<<Entry({i}, NoneSpec)>> : i \in ids} \cup {<<Entry({i}, PSpec(<<K1>>))>> : i \in ids}),
            sk \in Opt({SetSel({i}) : i \in ids}), on \in Opt({SetSel(ids \ {i}) : i \in ids} \cup {SetSel({i}) : i \in ids})}
    [] Slice = "C" ->
         {[NoOv EXCEPT !.map = m, !.extra_in = xi, !.extra_out = xo] :
            m \in {Nil, Some(<<Entry({IdB}, PSpec(<<N, Ell>>))>>), Some(<<Entry({IdA}, PSpec(<<N, K1>>)), Entry({IdC}, PSpec(<<N, K2, Ell>>))>>),
                   Some(<<Entry({IdA}, PSpec(<<IdxKey(0)>>)), Entry({IdB}, PSpec(<<IdxKey(1)>>))>>)},
            xi \in Opt({Xp("skip", 0), Xp("forbid", 0), Xp("kwargs", 0), Xp("target", 4), Xp("saturate", 0)}),
            xo \in Opt({Xp("skip", 0), Xp("target", 4), Xp("extract", 0)})}
    [] Slice = "D" ->
         {[NoOv EXCEPT !.map = m, !.aslist = al, !.extra_in = xi, !.extra_out = xo] :
            m \in Opt(OneEntryMaps(ids, ListSpecs) \cup {<<Entry({IdA}, PSpec(<<IdxKey(0)>>)), Entry({IdB}, s), Entry({IdC}, t)>> : s \in ListSpecs, t \in ListSpecs}),
            al \in Opt({TRUE}), xi \in Opt({Xp("forbid", 0)}), xo \in Opt({Xp("extract", 0)})}
    [] Slice = "E" ->
         {[NoOv EXCEPT !.map = m, !.omit = om, !.style = s] :
            m \in Opt(OneEntryMaps(ids, {PSpec(<<N, Ell>>), PSpec(<<N, K2, Ell>>), PSpec(<<K1>>)}) \cup MultiMaps(ids, {PSpec(<<N, Ell>>)})),
            om \in Opt({AnySel} \cup {SetSel({i}) : i \in ids}), s \in Opt({"upper"})}
    [] Slice = "F" ->
         {[NoOv EXCEPT !.map = m, !.style = s, !.trim = t, !.skip = sk, !.extra_in = xi] :
            m \in Opt({<<Entry({IdA}, PSpec(<<K1>>))>>, <<Entry({IdA}, PSpec(<<N, Ell>>))>>, <<Entry({IdA, IdC}, PSpec(<<N, Ell>>))>>, <<Entry({IdB}, PSpec(<<K1>>))>>}),
            s \in Opt({"upper"}), t \in Opt({FALSE}), sk \in Opt({SetSel({IdB})}), xi \in Opt({Xp("forbid", 0)})}

    [] Slice = "G" ->
         {[NoOv EXCEPT !.map = m, !.aslist = al, !.extra_in = xi, !.omit = om, !.skip = sk] :
            m \in Opt(OneEntryMaps(ids, {PSpec(<<N, Ell>>), PSpec(<<K1>>)}) \cup {<<Entry({IdB}, NoneSpec)>>, <<Entry({IdA, IdB}, PSpec(<<N, Ell>>))>>}),
            al \in Opt({TRUE}), xi \in Opt({Xp("forbid", 0)}), om \in Opt({AnySel}), sk \in Opt({SetSel({IdB})})}

VARIABLES shape, ovs
vars == <<shape, ovs>>
Init == shape \in Shapes /\ ovs = <<>>
PushOverlay == /\ Len(ovs) < MaxOverlays
               /\ \E o \in Overlays(shape) : o # NoOv /\ ovs' = <<o>> \o ovs
               /\ UNCHANGED shape
Next == PushOverlay

(* ------------------------------ verdicts and probes ---------------------------------- *)
Sch == Schema(ovs)
CreatedIn == ~Refused(Sch, shape, "in")
CreatedOut == ~Refused(Sch, shape, "out")
PsIn == Paths(Sch, shape, "in")
PsOut == Paths(Sch, shape, "out")
Optional == {i \in 1..Len(shape) : ~shape[i].req /\ shape[i].dir = "io"}
OutOnlyLive == {i \in Live(PsOut) : shape[i].dir = "out"}
\* the two directions agree on every field both of them know
SamePaths == \A i \in 1..Len(shape) : shape[i].dir = "io" => PsIn[i] = PsOut[i]
LiveIn == Live(PsIn)
Base(absent, bad) == DataFor(shape, PsIn, <<>>, absent, bad)
InnerNodes == Prefixes(PathSet(PsIn)) \ {<<>>}
DictNodes == {pre \in Prefixes(PathSet(PsIn)) : ~NodeIsList(PathSet(PsIn), pre)}
ListNodes == {pre \in Prefixes(PathSet(PsIn)) : NodeIsList(PathSet(PsIn), pre)}
RECURSIVE NodeAt(_, _)
NodeAt(d, p) == IF p = <<>> THEN d ELSE IF IsIdx(p[1]) THEN NodeAt(d.xs[p[1].i + 1], Tail(p)) ELSE NodeAt(Get(d, p[1]), Tail(p))
IntKeyed(pre, drop) == LET l == NodeAt(Base({}, {}), pre)
                           n == Len(l.xs) - drop
                       IN Dict([j \in 1..n |-> IdxKey(j - 1)], [j \in 1..n |-> l.xs[j]])
X1 == <<OpKey("u1"), XtraV(1)>>
X2 == <<OpKey("u2"), XtraV(2)>>

\* the probe-input family of a program: what a test author would have to write by hand for every generated loader
ProbeInputs ==
  {Base({}, {})}
  \cup {Base({i}, {}) : i \in Optional \cap LiveIn}                                   \* each optional field absent
  \cup {Base(Optional \cap LiveIn, {})}                                                \* all optional fields absent
  \cup {Base({}, {i}) : i \in LiveIn}                                                  \* each leaf ill-typed
  \cup {Base({}, LiveIn)}                                                              \* every leaf ill-typed
  \cup {Subst(Base({}, {}), PsIn[i], NoneV) : i \in LiveIn}                           \* each leaf PRESENT with the value None (present is not absent)
  \cup {RemoveKey(Base({}, {}), PsIn[i]) : i \in LiveIn}                               \* each mapped key missing
  \cup {RemoveKey(RemoveKey(Base({}, {}), PsIn[i]), PsIn[j]) : i \in LiveIn, j \in LiveIn}    \* two mapped keys missing (possibly at two levels)
  \cup {RemoveKey(Base({}, {j}), PsIn[i]) : i \in LiveIn, j \in LiveIn}                      \* a missing key and an ill-typed leaf
  \cup {Subst(Base({}, {}), pre, NoneV) : pre \in InnerNodes}                          \* each inner node of the wrong kind
  \cup {Subst(Base({}, {}), pre, IF NodeIsList(PathSet(PsIn), pre) THEN Dict(<<>>, <<>>) ELSE List(<<>>)) : pre \in InnerNodes \cup {<<>>}}
  \cup {NoneV}
  \* an odd subscriptable object in place of each dict node: obj['key'] raises IndexError / KeyError / TypeError of its own
  \cup {Subst(Base({}, {}), pre, OddV) : pre \in DictNodes}
  \* a mapping keyed by the list positions in place of each list node (complete, and with the last position missing)
  \cup {Subst(Base({}, {}), pre, IntKeyed(pre, 0)) : pre \in ListNodes}
  \cup {Subst(Base({}, {}), pre, IntKeyed(pre, 1)) : pre \in ListNodes}
  \cup {AddKeys(Base({}, {}), pre, <<X1>>) : pre \in DictNodes}                        \* one unknown key at each dict node
  \cup {AddKeys(Base({}, {}), <<>>, <<X1, X2>>)}                                       \* two unknown keys at the root
  \cup {AddKeys(Base({}, {i}), <<>>, <<X1>>) : i \in LiveIn}                           \* unknown key together with an ill-typed leaf
  \cup {AddKeys(RemoveKey(Base({}, {}), PsIn[i]), <<>>, <<X1>>) : i \in LiveIn}        \* unknown key together with a missing key

Probes == {[d |-> d, out |-> LoadModel(Sch, shape, d)] : d \in ProbeInputs}

\* objects to dump: every field set / every subset of optional fields at its default (absent, where the kind has no defaults)
Objects == {[i \in 1..Len(shape) |-> IF shape[i].dir = "out" THEN DerivedV(i)
                                      ELSE IF i \in D THEN (IF shape[i].hasdfl THEN DflV(i) ELSE AbsentV) ELSE GoodV(i)] : D \in SUBSET Optional}
\* ... each of them with one defaulted field holding a falsy value that is not the default ("equal to default" is not "falsy")
FalsyObjects == {[o EXCEPT ![i] = FalsyV(i)] : o \in Objects, i \in {j \in Optional : shape[j].hasdfl}}
\* ... and each of them with one typed field holding a value its dumper refuses
BadObjects == {[o EXCEPT ![i] = BadV(i)] : o \in Objects, i \in {j \in 1..Len(shape) : shape[j].ty \notin {"any", "dec"} /\ shape[j].dir = "io"}}
Dumps == {[obj |-> o, fails |-> DumpFails(Sch, shape, o), out |-> DumpModel(Sch, shape, o)] : o \in Objects \cup FalsyObjects \cup BadObjects}

(* ------------------------------ model-level properties -------------------------------- *)
\* a created loader accepts the input its own layout prescribes and gives every field its value
OwnInputLoads == CreatedIn => LET r == LoadModel(Sch, shape, Base({}, {})) IN
                                r.ok /\ \A i \in LiveIn : r.obj[i] = GoodV(i)
\* loader and dumper use the same paths: loading what the dumper wrote gives the object back (nothing omitted)
LoaderDumperAgree ==
  \* what an output-only field writes is unknown data for the loader: it must be allowed to ignore it
  (CreatedIn /\ CreatedOut /\ SamePaths /\ (OutOnlyLive = {} \/ Sch.extra_in.p = "skip") /\ Sch.omit = SetSel({})
     /\ (Sch.extra_out.p = "skip" \/ Sch.extra_in.p # "forbid")) =>
      \A o \in Objects \cup FalsyObjects : LET r == LoadModel(Sch, shape, DumpModel(Sch, shape, o)) IN
                         r.ok /\ \A i \in 1..Len(shape) : (i \in LiveIn \/ shape[i].dir = "out") => r.obj[i] = o[i]
\* with omit_default the omitted fields come back as their defaults
OmitDefaultRoundTrip ==
  (CreatedIn /\ CreatedOut /\ SamePaths /\ (OutOnlyLive = {} \/ Sch.extra_in.p = "skip") /\ (Sch.extra_out.p = "skip" \/ Sch.extra_in.p # "forbid")) =>
      \A o \in Objects \cup FalsyObjects : LET r == LoadModel(Sch, shape, DumpModel(Sch, shape, o)) IN
                         r.ok => \A i \in 1..Len(shape) : (i \in LiveIn \/ shape[i].dir = "out") => r.obj[i] = o[i]
\* C17 at model level: declaring the same logical model in another kind changes nothing but the absence of defaults -
\* same paths, same loader verdict, same outcome for every probe up to AbsentV for DflV; a dumper refused for a total kind is
\* refused for the TypedDict as well
Logical == [i \in 1..Len(shape) |-> [id |-> shape[i].id, req |-> shape[i].req, ty |-> shape[i].ty, dir |-> shape[i].dir]]
Blur(o) == [i \in 1..Len(o) |-> IF o[i] \in {AbsentV, NoneV} THEN DflV(i) ELSE o[i]]
KindsUniform ==
  \A k \in Kinds :
    LET sh == ShapeOf(k, Logical) IN
    /\ Paths(Sch, sh, "in") = PsIn /\ Paths(Sch, sh, "out") = PsOut
    /\ Refused(Sch, sh, "in") = ~CreatedIn
    /\ (k \in TotalKinds /\ Kind \in TotalKinds) => Refused(Sch, sh, "out") = ~CreatedOut
    /\ (Refused(Sch, ShapeOf("dataclass", Logical), "out") => Refused(Sch, sh, "out"))
    /\ CreatedIn => \A d \in ProbeInputs :
          LET r1 == LoadModel(Sch, sh, d)
              r2 == LoadModel(Sch, shape, d) IN
          r1.ok = r2.ok /\ r1.errs = r2.errs /\ r1.extra = r2.extra /\ (r1.ok => Blur(r1.obj) = Blur(r2.obj))
PathsDisjoint == CreatedIn => \A i, j \in LiveIn : i # j => PsIn[i] # PsIn[j] /\ ~IsPrefix(PsIn[i], PsIn[j])
\* precedence: a field named by the map ignores style and trim; skip beats only
MapBeatsStyle == \A i \in 1..Len(shape) : (MapHits(Sch, shape[i]) # {} /\ PsIn[i] # SKIP) =>
                     LET e == Sch.map[CHOOSE n \in MapHits(Sch, shape[i]) : \A m \in MapHits(Sch, shape[i]) : n <= m] IN
                     \A n \in 1..Len(e.spec.p) : e.spec.p[n] # Ell => PsIn[i][n] = e.spec.p[n]
SkipBeatsOnly == \A i \in 1..Len(shape) : Sel(Sch.skip, shape[i].id) => PsIn[i] = SKIP
\* every error the model predicts for a probe is located inside the probe
ErrorsOnlyWhenNotOk == CreatedIn => \A p \in Probes : p.out.ok <=> p.out.errs = {}

CaseRecord == [shape |-> shape, ovs |-> ovs, sch |-> [style |-> Sch.style, trim |-> Sch.trim, aslist |-> Sch.aslist,
                                                       extra_in |-> Sch.extra_in, extra_out |-> Sch.extra_out],
               created_in |-> CreatedIn, created_out |-> CreatedOut,
               paths_in |-> PsIn, paths_out |-> PsOut,
               probes |-> IF CreatedIn THEN Probes ELSE {}, dumps |-> IF CreatedOut THEN Dumps ELSE {}]
EmitCase == EmitCases => PrintT(ToJson(CaseRecord))
=======================================================================================
