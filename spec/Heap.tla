-------------------------------------- MODULE Heap --------------------------------------
(***************************************************************************************)
(* Purity of load / dump / convert with respect to their arguments (property C20), as  *)
(* an abstract heap of container identities.                                           *)
(*   owner of an identity:  "arg" (reachable from the argument before the call),        *)
(*                          "retort" (reachable from the retort's closures: constants,  *)
(*                          defaults), "res1" / "res2" (built by the first / second of   *)
(*                          two equal calls)                                            *)
(*   asis  the identities the documentation passes through unchanged (values at Any /   *)
(*         object positions, as-is loaders and dumpers)                                 *)
(* One Call step = two successive equal calls, observed as the sets of container        *)
(* identities reachable from each result.                                               *)
(***************************************************************************************)
EXTENDS Naturals, FiniteSets, TLC

\* what a correct call may do with identities
Fresh(res, arg, retort, asis) == res \cap (arg \cup retort) \subseteq asis          \* everything adaptix builds is new
Disjoint(res1, res2, asis) == res1 \cap res2 \subseteq asis                          \* two results share no container
OnlyAsIsAliases(res, arg, asis) == res \cap arg \subseteq asis                       \* aliases with the argument only at as-is positions

\* a small exhaustive sanity model: identities 1..N, any assignment of owners; the three properties are independent
CONSTANT N
Ids == 1..N
VARIABLES arg, retort, res1, res2, asis
Init == /\ arg \in SUBSET Ids /\ retort \in SUBSET Ids /\ res1 \in SUBSET Ids /\ res2 \in SUBSET Ids /\ asis \in SUBSET arg
Next == UNCHANGED <<arg, retort, res1, res2, asis>>
\* Fresh implies OnlyAsIsAliases (the model-level relation between the clauses of the monitor)
FreshImpliesAliasRule == Fresh(res1, arg, retort, asis) => OnlyAsIsAliases(res1, arg, asis)
=======================================================================================
