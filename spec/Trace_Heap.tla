---------------------------------- MODULE Trace_Heap ----------------------------------
(***************************************************************************************)
(* Total monitor for heap observations recorded from the real library (code -> spec,   *)
(* C20).  One ndjson line per pair of successive equal calls:                          *)
(*   [arg |-> ids reachable from the argument, retort |-> ids reachable from the retort *)
(*    and the produced callable, asis |-> ids at documented pass-through positions,     *)
(*    res1, res2 |-> ids of the containers reachable from the two results,              *)
(*    arg_same |-> the deep snapshot of the argument is unchanged,                      *)
(*    repeat_equal |-> the two results are equal]                                       *)
(* (identities renumbered in order of first appearance; sets arrive as arrays).         *)
(***************************************************************************************)
EXTENDS Naturals, Sequences, FiniteSets, TLC, Json, IOUtils

TraceLog == ndJsonDeserialize(IOEnv.TRACE_FILE)
ToSet(s) == {s[i] : i \in 1..Len(s)}
Fresh(res, arg, retort, asis) == res \cap (arg \cup retort) \subseteq asis
Disjoint(res1, res2, asis) == res1 \cap res2 \subseteq asis
OnlyAsIsAliases(res, arg, asis) == res \cap arg \subseteq asis

VARIABLES l, verdict
tvars == <<l, verdict>>
Clauses(e) ==
  LET arg == ToSet(e.arg) retort == ToSet(e.retort) asis == ToSet(e.asis) r1 == ToSet(e.res1) r2 == ToSet(e.res2) IN
  (IF e.arg_same THEN {} ELSE {"arg_unchanged"})
  \cup (IF e.repeat_equal THEN {} ELSE {"repeat_equal"})
  \cup (IF Fresh(r1, arg, {}, asis) /\ Fresh(r2, arg, {}, asis) THEN {} ELSE {"alias_only_as_is"})
  \cup (IF Fresh(r1, {}, retort, asis) /\ Fresh(r2, {}, retort, asis) THEN {} ELSE {"no_alias_with_retort"})
  \cup (IF Disjoint(r1, r2, asis \cup retort) THEN {} ELSE {"no_shared_mutable"})
TInit == l = 1 /\ verdict = [l |-> 0, bad |-> {}]
TNext == /\ l <= Len(TraceLog) /\ l' = l + 1
         /\ verdict' = [l |-> l, bad |-> Clauses(TraceLog[l])]
Report == verdict.bad # {} => PrintT(ToJson(verdict))
AllConsumed == TLCGet("stats").diameter - 1 = Len(TraceLog)
=======================================================================================
