-------------------------------------- MODULE Conc --------------------------------------
(***************************************************************************************)
(* Concurrent first use of one retort (property C12), at the grain of its shared-state  *)
(* operations.  Every thread performs   get_loader(Node);  loader(nested datum)   for   *)
(* the self-recursive model  Node {v: int, next: Optional[Node]}.                       *)
(*                                                                                     *)
(* What the code does (retort/searching_retort.py, operating_retort.py,                 *)
(* builtin_mediator.py, morphing/facade/retort.py):                                     *)
(*   LC_Get      _loader_cache[tp]                 (shared dict, per retort)            *)
(*   Enter       a facade call creates its OWN recursion resolver; the nested request   *)
(*               for Node finds Node already on the location stack and creates a stub   *)
(*               FuncWrapper(loc) - unbound                                             *)
(*   CC_Check / CC_Set   BuiltinMediator.cached_call on the SHARED _call_cache: key =   *)
(*               (factory, args); the Optional loader's key contains the stub, and      *)
(*               FuncWrapper.__eq__/__hash__ compare by LOCATION, so stubs of different *)
(*               threads are the same key (StubEqByLoc = TRUE, the code as it is);      *)
(*               the closure stored for the key references the creating thread's stub   *)
(*   Bind        track_response: the thread binds ITS stub to its model loader          *)
(*   LC_Set      _loader_cache[tp] = loader                                             *)
(*   Call        walking the closure graph on nested data calls the stub the Optional   *)
(*               closure references; an unbound stub is  'NoneType' is not callable     *)
(*                                                                                     *)
(* Closures are structured names <<kind, creating thread>>, stubs are named by owner.    *)
(***************************************************************************************)
EXTENDS Naturals, Sequences, FiniteSets, TLC

CONSTANTS Threads, StubEqByLoc

NoT == "none"
VARIABLES pc,        \* thread -> program counter
          lc,        \* the facade cache: NoT or the thread whose model loader is stored
          ccOpt,     \* call cache entries for the Optional loader: set of [key, by]  (by = creating thread; the closure references stub[by])
          ccModel,   \* call cache entries for the model loader: set of [key, by]  (the closure's `next` loader was created by key-owner)
          bound,     \* thread -> is its stub bound?
          optOf,     \* thread -> creating thread of the Optional closure it uses (NoT = not yet)
          modelOf,   \* thread -> [opt |-> creator of the Optional closure inside the model loader it holds]  (NoT before)
          res        \* thread -> "-", "ok", "crash"
vars == <<pc, lc, ccOpt, ccModel, bound, optOf, modelOf, res>>

\* the stub component of a call-cache key: all stubs are equal when compared by location
StubKey(t) == IF StubEqByLoc THEN "loc" ELSE t
OptKey(t) == StubKey(t)                      \* key of the Optional loader built on thread t's stub
ModelKey(o) == o                             \* key of the model loader: its field loaders (the Optional closure, named by creator)

Init == /\ pc = [t \in Threads |-> "lc_get"] /\ lc = NoT /\ ccOpt = {} /\ ccModel = {}
        /\ bound = [t \in Threads |-> FALSE] /\ optOf = [t \in Threads |-> NoT]
        /\ modelOf = [t \in Threads |-> NoT] /\ res = [t \in Threads |-> "-"]

LC_Get(t) == /\ pc[t] = "lc_get"
             /\ IF lc # NoT THEN /\ modelOf' = [modelOf EXCEPT ![t] = modelOf[lc]]     \* hit: use the stored loader
                                 /\ pc' = [pc EXCEPT ![t] = "call"]
                ELSE /\ pc' = [pc EXCEPT ![t] = "enter"] /\ modelOf' = modelOf
             /\ UNCHANGED <<lc, ccOpt, ccModel, bound, optOf, res>>
\* the nested request creates this thread's stub (thread-local resolver)
Enter(t) == /\ pc[t] = "enter"
            /\ pc' = [pc EXCEPT ![t] = "cc_opt_check"]
            /\ UNCHANGED <<lc, ccOpt, ccModel, bound, optOf, modelOf, res>>
\* cached_call for the Optional loader: `key in cache` then `cache[key]`, or build and store (two separate steps)
CC_OptCheck(t) == /\ pc[t] = "cc_opt_check"
                  /\ IF \E e \in ccOpt : e.key = OptKey(t)
                     THEN /\ optOf' = [optOf EXCEPT ![t] = (CHOOSE e \in ccOpt : e.key = OptKey(t)).by]
                          /\ pc' = [pc EXCEPT ![t] = "cc_model_check"]
                     ELSE /\ optOf' = [optOf EXCEPT ![t] = t]
                          /\ pc' = [pc EXCEPT ![t] = "cc_opt_set"]
                  /\ UNCHANGED <<lc, ccOpt, ccModel, bound, modelOf, res>>
CC_OptSet(t) == /\ pc[t] = "cc_opt_set"
                /\ ccOpt' = {e \in ccOpt : e.key # OptKey(t)} \cup {[key |-> OptKey(t), by |-> t]}      \* last writer wins
                /\ pc' = [pc EXCEPT ![t] = "cc_model_check"]
                /\ UNCHANGED <<lc, ccModel, bound, optOf, modelOf, res>>
\* cached_call for the model loader, keyed by its field loaders
CC_ModelCheck(t) == /\ pc[t] = "cc_model_check"
                    /\ IF \E e \in ccModel : e.key = ModelKey(optOf[t])
                       THEN /\ modelOf' = [modelOf EXCEPT ![t] = optOf[t]]
                            /\ pc' = [pc EXCEPT ![t] = "bind"]
                       ELSE /\ modelOf' = [modelOf EXCEPT ![t] = optOf[t]]
                            /\ pc' = [pc EXCEPT ![t] = "cc_model_set"]
                    /\ UNCHANGED <<lc, ccOpt, ccModel, bound, optOf, res>>
CC_ModelSet(t) == /\ pc[t] = "cc_model_set"
                  /\ ccModel' = ccModel \cup {[key |-> ModelKey(optOf[t]), by |-> t]}
                  /\ pc' = [pc EXCEPT ![t] = "bind"]
                  /\ UNCHANGED <<lc, ccOpt, bound, optOf, modelOf, res>>
\* track_response: this thread's stub now points to its model loader
Bind(t) == /\ pc[t] = "bind"
           /\ bound' = [bound EXCEPT ![t] = TRUE]
           /\ pc' = [pc EXCEPT ![t] = "lc_set"]
           /\ UNCHANGED <<lc, ccOpt, ccModel, optOf, modelOf, res>>
LC_Set(t) == /\ pc[t] = "lc_set"
             /\ lc' = t
             /\ pc' = [pc EXCEPT ![t] = "call"]
             /\ UNCHANGED <<ccOpt, ccModel, bound, optOf, modelOf, res>>
\* loader(nested datum): model loader -> Optional closure -> the stub it references (that of the closure's creator)
Call(t) == /\ pc[t] = "call"
           /\ res' = [res EXCEPT ![t] = IF bound[modelOf[t]] THEN "ok" ELSE "crash"]
           /\ pc' = [pc EXCEPT ![t] = "done"]
           /\ UNCHANGED <<lc, ccOpt, ccModel, bound, optOf, modelOf>>
Step(t) == LC_Get(t) \/ Enter(t) \/ CC_OptCheck(t) \/ CC_OptSet(t) \/ CC_ModelCheck(t) \/ CC_ModelSet(t) \/ Bind(t) \/ LC_Set(t) \/ Call(t)
Next == \E t \in Threads : Step(t)
Spec == Init /\ [][Next]_vars /\ \A t \in Threads : WF_vars(Step(t))

(* ------------------------------ properties (C12) ------------------------------------------- *)
\* every call completes without error
NoUnboundCall == \A t \in Threads : res[t] # "crash"
\* hazard state: a thread holds a closure that references another thread's still unbound stub
NoForeignUnboundRef == \A t \in Threads : (modelOf[t] # NoT /\ modelOf[t] # t /\ pc[t] \in {"bind", "lc_set", "call"}) => bound[modelOf[t]]
\* no deadlock is checked by TLC (CHECK_DEADLOCK with the terminal state excepted); every thread finishes
AllDone == \A t \in Threads : pc[t] = "done"
Terminates == <>AllDone
DeadlockFree == (\A t \in Threads : pc[t] = "done") \/ ENABLED Next
=======================================================================================
