----------------------------------- MODULE RouterRef -----------------------------------
(***************************************************************************************)
(* Reference semantics of recipe resolution (C09): the documented chain of             *)
(* responsibility, independent of any routing optimisation.  Constant-level operators  *)
(* only, shared by Router.tla (the code-shaped machine) and Trace_Router.tla (the      *)
(* monitor for consult logs recorded from the real retort).                            *)
(***************************************************************************************)
EXTENDS Naturals, Sequences, FiniteSets

CheckerClasses == {"exA", "exB", "exC", "predY", "predN"}
\* "abort": the handler raises a TERMINAL CannotProvide (CannotProvide(is_terminal=True)): the request bus re-raises it instead of
\* going on, through every delegating provider above - the whole request fails at once
HandlerKinds   == {"plain", "decline", "first", "last", "deleg", "abort"}
Providers      == [c : CheckerClasses, h : HandlerKinds]
Builtin        == [c |-> "predY", h |-> "plain"]

IsExact(p)  == p.c \in {"exA", "exB", "exC"}
Matches(p)  == p.c \in {"exA", "predY"}
FullIf(t, r) == IF t THEN Append(r, Builtin) ELSE r

(* ---------------------------- reference semantics ---------------------------------- *)
\* a term is the sequence of provider indices whose function is applied to the datum, in order of application
Compose(h, i, t) == CASE h = "first" -> <<i>> \o t         \* the function runs first, its result goes to the next loader
                      [] h = "last"  -> Append(t, i)       \* the function gets the result of the next loader
                      [] h = "deleg" -> Append(t, i)       \* a provider that wraps provide_from_next()

\* mc = the checker classes that match the request:  {"exA", "predY"} for a request of origin A;  {"predY"} for a request
\* whose type cannot be normalised (bare Optional / Union, an unresolvable forward reference): no exact-origin checker
\* matches it ("exC" is the exact origin None, which such a request must not be confused with)
RECURSIVE RefG(_, _, _)
RefG(r, from, mc) ==
  IF from > Len(r) THEN [ok |-> FALSE, term |-> <<>>, log |-> <<>>, ab |-> FALSE]
  ELSE LET p == r[from] IN
       IF p.c \notin mc THEN RefG(r, from + 1, mc)
       ELSE IF p.h = "plain" THEN [ok |-> TRUE, term |-> <<from>>, log |-> <<from>>, ab |-> FALSE]
       ELSE IF p.h = "abort" THEN [ok |-> FALSE, term |-> <<>>, log |-> <<from>>, ab |-> TRUE]
       ELSE LET n == RefG(r, from + 1, mc) IN
            IF p.h = "decline" THEN [n EXCEPT !.log = <<from>> \o @]
            ELSE IF n.ok THEN [ok |-> TRUE, term |-> Compose(p.h, from, n.term), log |-> <<from>> \o n.log, ab |-> FALSE]
                 \* nested search aborted: the terminal exception passes through the delegating handler
                 ELSE IF n.ab THEN [ok |-> FALSE, term |-> <<>>, log |-> <<from>> \o n.log, ab |-> TRUE]
                 \* nested search failed: the provider declines and the outer search goes on (and fails the same way)
                 ELSE [ok |-> FALSE, term |-> <<>>, log |-> (<<from>> \o n.log) \o n.log, ab |-> FALSE]
Ref(r, from) == RefG(r, from, {"exA", "predY"})

=======================================================================================
