------------------------------------ MODULE MC_Load ------------------------------------
(***************************************************************************************)
(* Case-building machine over Load.tla: TLC enumerates (type, datum) pairs, checks the *)
(* properties of the documented rule set on each (totality, strict subset of lax,       *)
(* strict origins) and emits every case with the model's verdict for both coercion      *)
(* modes; the harness replays each case into the real library in all six               *)
(* (strict_coercion x debug_trail) modes.                                               *)
(***************************************************************************************)
EXTENDS TypePools, Json

CONSTANTS KeyPool,       \* tokens used as dict keys of the data
          Pool,          \* tokens used as container elements (one member of every look-alike pair + wrong ones)
          TopTokens,     \* tokens tried at top level against scalar / literal / union types
          DataKinds,     \* container kinds of the data
          Width,         \* maximal container width of the data
          EmitCases

(* ------------------------------ data enumeration ----------------------------------- *)
PoolAtoms == {Atom(t) : t \in Pool}
\* sequences of length <= Width over a set
SeqsUpTo(S, n) == UNION {[1..m -> S] : m \in 0..n}
Distinct(xs) == \A i, j \in 1..Len(xs) : i # j => EqClass[xs[i].a] # EqClass[xs[j].a]
AllHashableAtoms(xs) == \A i \in 1..Len(xs) : IsAtom(xs[i]) /\ Hashable[xs[i].a]
SeqData(S) == {[c |-> k, xs |-> xs] : k \in DataKinds \cap SeqKinds, xs \in SeqsUpTo(S, Width)}
WellFormed(d) == IF d.c \in {"set", "frozenset"} THEN AllHashableAtoms(d.xs) /\ Distinct(d.xs)
                 ELSE IF d.c \in MapKinds THEN AllHashableAtoms(d.ks) /\ Distinct(d.ks)
                 ELSE TRUE
MapData(K, V) == {[c |-> k, ks |-> ks, vs |-> vs] : k \in DataKinds \cap MapKinds,
                    ks \in SeqsUpTo(K, Width), vs \in SeqsUpTo(V, Width)}
WrongShapes == {[c |-> "list", xs |-> <<>>], [c |-> "list", xs |-> <<Atom("i1")>>], [c |-> "tuple", xs |-> <<Atom("i1"), Atom("s_a")>>],
                [c |-> "dict", ks |-> <<>>, vs |-> <<>>], [c |-> "dict", ks |-> <<Atom("s_a")>>, vs |-> <<Atom("i1")>>],
                [c |-> "dict", ks |-> <<Atom("i0"), Atom("i1")>>, vs |-> <<Atom("i1"), Atom("s_a")>>],
                [c |-> "cmap", ks |-> <<Atom("s_a")>>, vs |-> <<Atom("i1")>>], [c |-> "gen", xs |-> <<Atom("i1")>>],
                [c |-> "set", xs |-> <<Atom("i1")>>]}
TopAtoms == {Atom(t) : t \in TopTokens}
L1 == {d \in SeqData(PoolAtoms) : WellFormed(d)}
D1 == {d \in MapData({Atom(t) : t \in KeyPool}, PoolAtoms) : Len(d.ks) = Len(d.vs) /\ WellFormed(d)}
SmallInner == {[c |-> "list", xs |-> <<>>], [c |-> "list", xs |-> <<Atom("i1")>>], [c |-> "list", xs |-> <<Atom("i1"), Atom("s_a")>>],
               [c |-> "tuple", xs |-> <<Atom("i2")>>], [c |-> "list", xs |-> <<Atom("bT")>>],
               [c |-> "dict", ks |-> <<Atom("s_a")>>, vs |-> <<Atom("i1")>>], [c |-> "dict", ks |-> <<Atom("i1")>>, vs |-> <<Atom("s_a")>>],
               [c |-> "tuple", xs |-> <<Atom("i1"), Atom("s_a")>>], [c |-> "tuple", xs |-> <<Atom("s_a"), Atom("i1")>>],
               Atom("i1"), Atom("s_a"), Atom("none")}
L2 == {[c |-> k, xs |-> xs] : k \in (DataKinds \cap {"list", "tuple", "gen"}), xs \in SeqsUpTo(SmallInner, Width)}
D2 == {[c |-> "dict", ks |-> ks, vs |-> vs] : ks \in {<<>>, <<Atom("s_a")>>, <<Atom("s_a"), Atom("i1")>>, <<Atom("s_int"), Atom("s_a")>>},
                                             vs \in SeqsUpTo(SmallInner, Width)}
DataFor(T) == IF T \in FlatTypes \cup UserFlat THEN TopAtoms \cup WrongShapes
              ELSE IF T \in Cont1Types \cup UserCont THEN L1 \cup {d \in D1 : Len(d.ks) = Len(d.vs)} \cup TopAtoms
              ELSE L2 \cup {d \in D2 : Len(d.ks) = Len(d.vs)} \cup SmallInner

(* ------------------------------ the machine ---------------------------------------- *)
VARIABLES st, T, d
vars == <<st, T, d>>
NoT == Sc("Any")
NoD == Atom("none")

Init == st = "root" /\ T = NoT /\ d = NoD
PickType == /\ st = "root"
            /\ \E t \in AllTypes \cup UserTypes : T' = t
            /\ st' = "type"
            /\ d' = d
PickDatum == /\ st = "type"
             /\ \E x \in DataFor(T) : d' = x
             /\ st' = "case"
             /\ T' = T
Next == PickType \/ PickDatum

(* ------------------------------ properties ----------------------------------------- *)
IsCase == st = "case"
RulesTotal        == IsCase => Total(T, d, TRUE) /\ Total(T, d, FALSE)
StrictNarrows     == IsCase => StrictSubLax(T, d)                                   \* C07 on the documented rules
StrictOrigins     == IsCase => StrictOriginsOnly(T, d) /\ StrictNoStrNoMapping(T, d) \* C07, second sentence
ErrsOnlyWhenRejected == IsCase => \A s \in BOOLEAN : Acc(T, d, s) # {} => Errs(T, d, s) = {}
\* an exception of user code is never turned into acceptance, and it does not depend on the coercion mode of the builtin cases
\* in front of it more than those cases do
UnexpConsistent == IsCase => (Unexp(T, d, TRUE) => Acc(T, d, TRUE) = {}) /\ (Unexp(T, d, FALSE) => Acc(T, d, FALSE) = {})

CaseRecord == [T |-> T, d |-> d, S |-> Outcome(T, d, TRUE), L |-> Outcome(T, d, FALSE)]
EmitCase == IsCase /\ EmitCases => PrintT(ToJson(CaseRecord))
=======================================================================================
