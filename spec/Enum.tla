-------------------------------------- MODULE Enum --------------------------------------
(***************************************************************************************)
(* Representations of Flag and Enum members (property C18).                            *)
(*                                                                                     *)
(* A flag value is a SET OF BITS (| is union, `a in b` is subset); a Flag class is a   *)
(* sequence of members [n |-> name token, v |-> set of bits] (a repeated value is an   *)
(* alias).  Valid(cls, x) is Python's own rule for which values the class has          *)
(* (enum.Flag, STRICT boundary); the harness checks it against enum itself.            *)
(*                                                                                     *)
(*   flag_by_exact_value      the int value; "does not support flags with skipped      *)
(*                            bits and negative values" - every other class must work  *)
(*   flag_by_member_names     a list of member names; "Loader takes a flag members     *)
(*                            name list and returns united flag member"; options       *)
(*                            allow_single_value / allow_duplicates / allow_compound   *)
(*   enum_by_exact_value / enum_by_name(name_style, map) / enum_by_value(tp)           *)
(*                                                                                     *)
(* For every provider the model gives Load on candidate representations; a dumped      *)
(* representation is correct iff Load maps it back to the dumped member (bijection),   *)
(* whatever decomposition the dumper chose.                                            *)
(***************************************************************************************)
EXTENDS Naturals, Sequences, FiniteSets, TLC, Json

CONSTANTS MaxMembers, EmitCases, Part

AllBits == {1, 2, 4}
Values == SUBSET AllBits
Name(v) == v                         \* a member is named after its value (M<int>); aliases get the suffix "a"
Mem(n, v, al) == [n |-> n, v |-> v, alias |-> al]

(* ------------------------------ flag classes ------------------------------------------ *)
\* classes: up to MaxMembers distinct values, optionally one alias of the first member
ValueSets == {S \in SUBSET Values : Cardinality(S) >= 1 /\ Cardinality(S) <= MaxMembers /\ S # {{}}}
FlagClasses == {[vals |-> S, alias |-> a] : S \in ValueSets, a \in BOOLEAN}
Mask(c) == UNION c.vals
Singles(c) == {v \in c.vals : Cardinality(v) = 1}
SinglesMask(c) == UNION Singles(c)
Compound(c) == {v \in c.vals : Cardinality(v) > 1}
\* Python >= 3.11 (enum.Flag._missing_, STRICT boundary): the value must lie inside the mask; the single-bit members it
\* contains, plus - when it has bits no single-bit member covers - the multi-bit members wholly contained in it, are
\* combined; the value is valid iff that combination is empty (a nameless pseudo-member) or the whole value
Comb(c, x) == (x \cap SinglesMask(c)) \cup (IF x \ SinglesMask(c) = {} THEN {} ELSE UNION {v \in Compound(c) : v \subseteq x})
Valid(c, x) == x \subseteq Mask(c) /\ (Comb(c, x) = {} \/ Comb(c, x) = x)
ValidValues(c) == {x \in Values : Valid(c, x)}
\* the members and their combinations (what C18 quantifies over); the other valid values are nameless pseudo-members
Combos(c) == {UNION S : S \in SUBSET c.vals}
MaxBit(S) == IF S = {} THEN 0 ELSE CHOOSE b \in S : \A d \in S : d <= b
\* "flags with skipped bits ... are not supported"
HasSkippedBits(c) == Mask(c) # {b \in AllBits : b <= MaxBit(Mask(c))}

(* ---- flag_by_exact_value ---- *)
ExactCreatable(c) == ~HasSkippedBits(c)
\* candidate representations: every int 0..7 (as bit set), plus non-int data handled by gamma
ExactLoad(c, x) == IF Valid(c, x) THEN [ok |-> TRUE, v |-> x] ELSE [ok |-> FALSE, v |-> {}]

(* ---- flag_by_member_names ---- *)
\* opts = [single, dups, compound]
Cases(c, opts) == IF opts.compound THEN c.vals ELSE Singles(c)
\* a candidate is a sequence of items; an item is a member value (its name) or "bad" (no such name), encoded [k |-> "m"|"bad", v]
It(v) == [k |-> "m", v |-> v]
BadIt == [k |-> "bad", v |-> {}]
UnhashIt == [k |-> "unhash", v |-> {}]      \* an unhashable object (a list, a dict, a bytearray) where a name is expected
NonStrIt == [k |-> "nonstr", v |-> {}]      \* a hashable non-string (an int, None, a tuple)
NamesLoad(c, opts, items, single) ==
  LET known == \A i \in 1..Len(items) : items[i].k = "m" /\ items[i].v \in Cases(c, opts)
      nodups == \A i, j \in 1..Len(items) : i # j => items[i] # items[j]
  IN  IF single /\ ~opts.single THEN [ok |-> FALSE, v |-> {}]                       \* a bare string instead of a list
      ELSE IF ~known THEN [ok |-> FALSE, v |-> {}]
      ELSE IF ~opts.dups /\ ~nodups THEN [ok |-> FALSE, v |-> {}]
      ELSE [ok |-> TRUE, v |-> UNION {items[i].v : i \in 1..Len(items)}]            \* "members combined by operator |"
\* can the value be written as a union of allowed cases at all?
Expressible(c, opts, x) == x = UNION {v \in Cases(c, opts) : v \subseteq x}
Opts == [single : BOOLEAN, dups : BOOLEAN, compound : BOOLEAN]
ItemPool(c) == {It(v) : v \in c.vals} \cup {BadIt, UnhashIt, NonStrIt}
Candidates(c) == UNION {[1..n -> ItemPool(c)] : n \in 0..2}

(* ------------------------------ enum classes (not flags) ------------------------------ *)
\* described by gamma (vf/props/c18.py ENUM_CLASSES); the model states the representation rule per provider:
\*   exact value: member <-> its value          by name: member <-> mapped name (map by member or by name, else style(name))
\*   by value type tp: member <-> dumper(tp)(value)
\* and the bijection property is checked on the real code for every member of every described class.

(* ------------------------------ the machine -------------------------------------------- *)
VARIABLES st, cls, opts
vars == <<st, cls, opts>>
NoOpts == [single |-> FALSE, dups |-> FALSE, compound |-> FALSE]
Init == st = "root" /\ cls = [vals |-> {{1}}, alias |-> FALSE] /\ opts = NoOpts
PickClass == /\ st = "root"
             /\ \E c \in FlagClasses : cls' = c
             /\ st' = "cls" /\ opts' = opts
PickExact == /\ st = "cls" /\ Part = 1
             /\ st' = "exact" /\ UNCHANGED <<cls, opts>>
PickNames == /\ st = "cls" /\ Part = 2
             /\ \E o \in Opts : opts' = o
             /\ st' = "names" /\ cls' = cls
Next == PickClass \/ PickExact \/ PickNames

(* ------------------------------ properties ----------------------------------------------- *)
\* on the documented rules: every valid value of a supported class has an exact-value representation that loads back
ExactBijection == st = "exact" => \A x \in Combos(cls) : ExactLoad(cls, x).ok /\ ExactLoad(cls, x).v = x
\* with compound members allowed every valid value is expressible
CompoundCoversAll == (st = "names" /\ opts.compound) => \A x \in Combos(cls) : Expressible(cls, opts, x)
CombosAreValid == st = "cls" => Combos(cls) \subseteq ValidValues(cls)

ExactRecord == [p |-> "exact", vals |-> cls.vals, alias |-> cls.alias, creatable |-> ExactCreatable(cls),
                valid |-> ValidValues(cls), combos |-> Combos(cls), mask |-> Mask(cls)]
NamesRecord == [p |-> "names", vals |-> cls.vals, alias |-> cls.alias, opts |-> opts, valid |-> ValidValues(cls), combos |-> Combos(cls),
                expressible |-> {x \in Combos(cls) : Expressible(cls, opts, x)},
                cands |-> {[items |-> it, single |-> s, out |-> NamesLoad(cls, opts, it, s)] :
                              it \in Candidates(cls), s \in BOOLEAN} \ {r \in {[items |-> it, single |-> TRUE, out |-> NamesLoad(cls, opts, it, TRUE)] : it \in Candidates(cls)} : Len(r.items) # 1}]
EmitCase == /\ (st = "exact" /\ EmitCases) => PrintT(ToJson(ExactRecord))
            /\ (st = "names" /\ EmitCases) => PrintT(ToJson(NamesRecord))
=======================================================================================
