------------------------------------ MODULE Convert ------------------------------------
(***************************************************************************************)
(* Model-to-model conversion (properties C13, C14), transcribed from                   *)
(* docs/conversion/tutorial.rst ("Linking algorithm", "Type coercion").                *)
(*                                                                                     *)
(* Types  [k |-> kind, a |-> <<arguments>>, v |-> <<literal members>>]                 *)
(*   scalars  int str bool float bytes None Any   classes A, B (B <: A)                *)
(*   list set tuple_var frozenset deque Sequence Iterable (iterables)  dict Mapping    *)
(*   union (as written)   literal   newtype(of)   G_int / G_str (a user generic)       *)
(*   model(id)  - a model table lists the fields of each id                            *)
(*                                                                                     *)
(* Coercible(S, D) is the documented relation, nothing else:                           *)
(*   as is:     same type | destination Any | non-generic subclass | the source        *)
(*              (union) is a subset of the destination union by type equality          *)
(*   compound:  both Optional | both builtin iterables | both dict | both models       *)
(* Values(T) is a small value-set semantics used to check on the model that the as-is  *)
(* rules are type-sound, and by the harness to check converted objects.                *)
(***************************************************************************************)
EXTENDS Naturals, Sequences, FiniteSets, TLC, Json

T(k, a, v) == [k |-> k, a |-> a, v |-> v]
Sc(k) == T(k, <<>>, <<>>)
Opt(x) == T("union", <<x, Sc("None")>>, <<>>)
Un(a) == T("union", a, <<>>)
Lit(v) == T("literal", <<>>, v)
Model(id) == T("model", <<>>, <<id>>)

IterKinds == {"list", "set", "tuple_var", "frozenset", "deque", "Sequence", "Iterable"}
DictKinds == {"dict", "Mapping"}
ClassKinds == {"int", "str", "bool", "float", "bytes", "A", "B", "object"}
\* issubclass among the non-generic classes of the universe
Supers(k) == CASE k = "bool" -> {"bool", "int", "object"} [] k = "B" -> {"B", "A", "object"}
               [] k \in ClassKinds -> {k, "object"} [] OTHER -> {k}

(* ------------------------------ type equality (normal forms) ------------------------- *)
\* union members flattened, duplicates and order irrelevant; a singleton union is its member (see PyTypes.tla)
RECURSIVE Norm(_)
Members(n) == IF n.k = "union" THEN n.m ELSE {n}
Norm(t) ==
  CASE t.k = "union" -> LET M == UNION {Members(Norm(t.a[i])) : i \in 1..Len(t.a)} IN
                         IF Cardinality(M) = 1 THEN CHOOSE x \in M : TRUE ELSE [k |-> "union", m |-> M, a |-> <<>>, v |-> {}]
    [] t.k = "literal" -> [k |-> "literal", m |-> {}, a |-> <<>>, v |-> {t.v[i] : i \in 1..Len(t.v)}]
    [] OTHER -> [k |-> t.k, m |-> {}, a |-> [i \in 1..Len(t.a) |-> Norm(t.a[i])], v |-> {t.v[i] : i \in 1..Len(t.v)}]
Same(s, d) == Norm(s) = Norm(d)
NoneN == Norm(Sc("None"))
IsUnionN(n) == n.k = "union"
\* "source and destination types are Optional": Optional[X] is Union[X, None], and X may itself be a union
\* (typing: Optional[Union[int, str]] == Union[int, str, None]); the payload is the union of the non-None members
IsOptional(t) == LET n == Norm(t) IN IsUnionN(n) /\ NoneN \in n.m

(* ------------------------------ models ------------------------------------------------- *)
\* model table (a constant of the instance): id -> sequence of fields [n |-> name, t |-> type, req |-> BOOLEAN]
CONSTANT Models
FieldsOf(id) == Models[id]
FieldNames(id) == {FieldsOf(id)[i].n : i \in 1..Len(FieldsOf(id))}
FieldOf(id, n) == FieldsOf(id)[CHOOSE i \in 1..Len(FieldsOf(id)) : FieldsOf(id)[i].n = n]

(* ------------------------------ the documented relation -------------------------------- *)
\* re-read a normal form as a type (members of an Optional are normal forms)
RECURSIVE Renorm(_), SetToSeqN(_), SetToSeqV(_)
SetToSeqV(S) == IF S = {} THEN <<>> ELSE LET x == CHOOSE y \in S : TRUE IN <<x>> \o SetToSeqV(S \ {x})
SetToSeqN(S) == IF S = {} THEN <<>> ELSE LET x == CHOOSE y \in S : TRUE IN <<Renorm(x)>> \o SetToSeqN(S \ {x})
Renorm(n) == IF n.k = "union" THEN T("union", SetToSeqN(n.m), <<>>)
             ELSE IF n.k = "literal" THEN T("literal", <<>>, SetToSeqV(n.v))
             ELSE T(n.k, [i \in 1..Len(n.a) |-> Renorm(n.a[i])], SetToSeqV(n.v))
Payload(t) == LET rest == Norm(t).m \ {NoneN} IN                              \* the non-None part of an Optional
              IF Cardinality(rest) = 1 THEN Renorm(CHOOSE x \in rest : TRUE) ELSE T("union", SetToSeqN(rest), <<>>)

AsIs(s, d) ==
  LET ns == Norm(s)
      nd == Norm(d)
  IN \/ ns = nd                                                              \* source type and destination type are the same
     \/ nd.k = "Any"                                                         \* destination type is Any
     \/ (ns.k \in ClassKinds /\ nd.k \in ClassKinds /\ nd.k \in Supers(ns.k))   \* subclass (excluding generics)
     \/ (IsUnionN(nd) /\ Members(ns) \subseteq nd.m)                         \* source union is a subset of destination union (== check)

RECURSIVE Coercible(_, _), ModelConvertible(_, _)
Coercible(s, d) ==
  \/ AsIs(s, d)
  \/ (IsOptional(s) /\ IsOptional(d) /\ Coercible(Payload(s), Payload(d)))
  \/ (s.k \in IterKinds /\ d.k \in IterKinds /\ Coercible(s.a[1], d.a[1]))
  \/ (s.k \in DictKinds /\ d.k \in DictKinds /\ Coercible(s.a[1], d.a[1]) /\ Coercible(s.a[2], d.a[2]))
  \/ (s.k = "model" /\ d.k = "model" /\ ModelConvertible(s.v[1], d.v[1]))

\* every destination field needs a same-named source field whose type is coercible; an unlinked destination field is
\* refused - also an optional one, under the default (forbid) policy
ModelConvertible(sid, did) ==
  \A i \in 1..Len(FieldsOf(did)) :
     LET f == FieldsOf(did)[i] IN
     /\ f.n \in FieldNames(sid)
     /\ Coercible(FieldOf(sid, f.n).t, f.t)

(* ------------------------------ a value-set semantics ----------------------------------- *)
\* tokens: vi (an int) vb (a bool) vs (a str that is no literal member) vf vby vnone va (an A that is no B) vvb (a B) la lb (the literal strings)
RECURSIVE IsFlat(_), Values(_)
IsFlat(t) == t.k \in {"int", "bool", "str", "float", "bytes", "None", "A", "B", "Any", "object", "literal"}
             \/ (t.k = "union" /\ \A i \in 1..Len(t.a) : IsFlat(t.a[i]))
Values(t) ==
  CASE t.k = "int" -> {"vi", "vb"} [] t.k = "bool" -> {"vb"} [] t.k = "str" -> {"vs", "la", "lb"} [] t.k = "float" -> {"vf"}
    [] t.k = "bytes" -> {"vby"} [] t.k = "None" -> {"vnone"} [] t.k = "A" -> {"va", "vvb"} [] t.k = "B" -> {"vvb"}
    [] t.k \in {"Any", "object"} -> {"vi", "vb", "vs", "la", "lb", "vf", "vby", "vnone", "va", "vvb", "other"}
    [] t.k = "literal" -> {t.v[i] : i \in 1..Len(t.v)}
    [] t.k = "union" -> UNION {Values(t.a[i]) : i \in 1..Len(t.a)}
\* the as-is rules never let a value of another static type through
AsIsSound(s, d) == (IsFlat(s) /\ IsFlat(d) /\ AsIs(s, d)) => Values(s) \subseteq Values(d)
=======================================================================================
