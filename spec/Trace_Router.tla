--------------------------------- MODULE Trace_Router ---------------------------------
(***************************************************************************************)
(* Total monitor for consult logs recorded from the real retort (code -> spec, C09).   *)
(* Every line of the ndjson trace is one observed request:                             *)
(*   [rec |-> abstract recipe, tail |-> BOOLEAN, ok, term, log]                        *)
(* (log = indices of the marker providers in the order their handlers were called,     *)
(*  term = indices of the functions applied by the produced loader, in order).         *)
(* Each step consumes one line and evaluates the named clauses against RouterRef!Ref;  *)
(* a failing clause does not block the monitor, it is reported with the expectation.   *)
(***************************************************************************************)
EXTENDS RouterRef, TLC, Json, IOUtils

TraceLog == ndJsonDeserialize(IOEnv.TRACE_FILE)

VARIABLES l, verdict
tvars == <<l, verdict>>

Clauses(e) ==
  LET r == FullIf(e.tail, e.rec)
      x == Ref(r, 1)
  IN  (IF e.ok = x.ok THEN {} ELSE {"served_iff_ref"})
      \cup (IF e.log = x.log THEN {} ELSE {"consult_log_is_ref"})
      \cup (IF e.term = x.term THEN {} ELSE {"composed_term_is_ref"})
      \cup (IF \A a, b \in 1..Len(e.term) : a # b => e.term[a] # e.term[b] THEN {} ELSE {"chain_once"})
      \cup (IF e.ok => \A a, b \in 1..Len(e.log) : a # b => e.log[a] # e.log[b] THEN {} ELSE {"no_twice_on_success"})

TInit == l = 1 /\ verdict = [l |-> 0, bad |-> {}, exp |-> <<>>]
TNext == /\ l <= Len(TraceLog)
         /\ l' = l + 1
         /\ LET e == TraceLog[l]
                b == Clauses(e)
            IN verdict' = [l |-> l, bad |-> b,
                           exp |-> IF b = {} THEN <<>> ELSE <<Ref(FullIf(e.tail, e.rec), 1)>>]
TSpec == TInit /\ [][TNext]_tvars

Report == verdict.bad # {} => PrintT(ToJson(verdict))
AllConsumed == TLCGet("stats").diameter - 1 = Len(TraceLog)
=======================================================================================
