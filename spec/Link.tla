-------------------------------------- MODULE Link --------------------------------------
(***************************************************************************************)
(* The linking rules of generated converters (property C13), transcribed from          *)
(* docs/conversion/tutorial.rst, "Fields linking" and "Linking algorithm":             *)
(*   "For each field of the destination model, adaptix searches a corresponding field. *)
(*    Additional parameters are checked (from right to left) before the fields.  So,   *)
(*    your custom linking looks among the additional parameters too.  By default,      *)
(*    fields are matched by exact name equivalence, parameters are matched only for    *)
(*    top-level destination model fields."  from_param reaches any level.              *)
(*                                                                                     *)
(* A program: source model fields SF (top) and SN (nested model under field n),        *)
(* destination fields DF (top) and DN (nested), extra parameters PS (a sequence), a    *)
(* recipe of link providers.  Plan(level, f) is a symbolic term saying where the value *)
(* of a destination field comes from; "none" = no source: creation must be refused.    *)
(***************************************************************************************)
EXTENDS Naturals, Sequences, FiniteSets, TLC, Json

CONSTANTS MaxRecipe, EmitCases, Slice

Names == {"a", "b", "c"}
NestedField == "n"
ParamNames == {"a", "b", "p"}        \* parameters may be named like fields ("a same-named extra parameter wins")

\* link providers:
\*   [t |-> "link", src |-> name, dst |-> name, sm |-> "any"|"top"|"nested", dm |-> same]   link(P[..].src, P[..].dst)
\*        sm / dm: the predicate is a bare name (matches at any level) or bound to the top / nested model class
\*   [t |-> "plink", p |-> param, dst |-> name, dm]     link(from_param(p), P[..].dst)
\*   [t |-> "const", dst |-> name, dm]                  link_constant(P[..].dst, value=..)
\*   [t |-> "func", dst |-> name, dm]                   link_function(lambda model: .., P[..].dst)
Levels == {"top", "nested"}
MatchesLevel(m, level) == m = "any" \/ m = level
Providers == {[t |-> "link", src |-> s, dst |-> d, sm |-> sm, dm |-> dm, p |-> "-"] : s \in Names, d \in Names, sm \in {"any", "top", "nested"}, dm \in {"any", "top", "nested"}}
             \cup {[t |-> "plink", src |-> "-", dst |-> d, sm |-> "any", dm |-> dm, p |-> p] : d \in Names, dm \in {"any", "nested"}, p \in ParamNames}
             \cup {[t |-> "const", src |-> "-", dst |-> d, sm |-> "any", dm |-> dm, p |-> "-"] : d \in Names, dm \in {"any", "top"}}
             \cup {[t |-> "func", src |-> "-", dst |-> d, sm |-> "any", dm |-> "top", p |-> "-"] : d \in Names}
             \* allow_unlinked_optional(P[..].dst): an optional destination field without a source keeps its default
             \cup {[t |-> "allow", src |-> "-", dst |-> d, sm |-> "any", dm |-> "any", p |-> "-"] : d \in Names}

VARIABLES SF, SN, DF, DN, PS, recipe, st, DO
vars == <<SF, SN, DF, DN, PS, recipe, st, DO>>

\* sources visible when the destination field at `level` is built
SrcFields(level) == IF level = "top" THEN SF ELSE SN
RevParams == [i \in 1..Len(PS) |-> PS[Len(PS) + 1 - i]]          \* "from right to left"
InParams(p) == \E i \in 1..Len(PS) : PS[i] = p

Src(level, n) == [k |-> "src", level |-> level, n |-> n]
Par(p) == [k |-> "param", level |-> "-", n |-> p]
Const == [k |-> "const", level |-> "-", n |-> "-"]
Func == [k |-> "func", level |-> "-", n |-> "-"]
None == [k |-> "none", level |-> "-", n |-> "-"]
Dflt == [k |-> "default", level |-> "-", n |-> "-"]

\* what a link provider yields for destination field f at level (None = it does not apply)
Apply(pr, level, f) ==
  IF pr.dst # f \/ ~MatchesLevel(pr.dm, level) THEN None
  ELSE CASE pr.t = "allow" -> None                 \* a policy, not a link
         [] pr.t = "const" -> Const
         [] pr.t = "func" -> Func
         [] pr.t = "plink" -> IF InParams(pr.p) THEN Par(pr.p) ELSE None
         [] pr.t = "link" ->
              \* the source predicate is looked up among the model's fields, then among the parameters (right to left)
              IF pr.src \in SrcFields(level) /\ MatchesLevel(pr.sm, level) THEN Src(level, pr.src)
              ELSE IF pr.sm = "any" /\ InParams(pr.src) THEN Par(pr.src)
              ELSE None

\* default: same name; for top-level fields an extra parameter (rightmost first) wins over the source field
Default(level, f) ==
  IF level = "top" /\ InParams(f) THEN Par(f)
  ELSE IF f \in SrcFields(level) THEN Src(level, f)
  ELSE None

RECURSIVE FirstLink(_, _, _)
FirstLink(i, level, f) == IF i > Len(recipe) THEN Default(level, f)
                          ELSE LET r == Apply(recipe[i], level, f) IN IF r # None THEN r ELSE FirstLink(i + 1, level, f)
Allowed(f) == \E i \in 1..Len(recipe) : recipe[i].t = "allow" /\ recipe[i].dst = f
\* DO = the optional top-level destination fields (they have a default)
Plan(level, f) == LET r == FirstLink(1, level, f) IN
                  IF r = None /\ level = "top" /\ f \in DO /\ Allowed(f) THEN Dflt ELSE r

HasNested == NestedField \in DF
Creatable == /\ \A f \in DF \ {NestedField} : Plan("top", f) # None
             /\ HasNested => /\ Plan("top", NestedField).k = "src"               \* the nested model itself is linked by name
                             /\ \A f \in DN : Plan("nested", f) # None

Init == /\ st = "build" /\ recipe = <<>>
        /\ SF \in {{"a", "b", NestedField}, {"a", "b", "c", NestedField}, {"a", "c", NestedField}}
        /\ SN \in {{"a", "b"}, {"a", "c"}}
        /\ DF \in {{"a", "b"}, {"a", "c", NestedField}, {"b", "c"}, {"a", NestedField}, {"a", "b", "c"}}
        /\ DO \in {{}, {"b", "c"}} /\ (DO # {} => DF = {"a", "b", "c"})
        /\ DN \in {{"a"}, {"a", "b"}, {"b", "c"}}
        /\ PS \in {<<>>, <<"p">>, <<"a">>, <<"p", "a">>, <<"a", "b">>}
AddProvider == /\ st = "build" /\ Len(recipe) < MaxRecipe
               /\ \E pr \in Providers : recipe' = Append(recipe, pr)
               /\ UNCHANGED <<SF, SN, DF, DN, PS, st, DO>>
Finish == /\ st = "build" /\ st' = "case" /\ UNCHANGED <<SF, SN, DF, DN, PS, recipe, DO>>
Next == AddProvider \/ Finish

(* ------------------------------ properties ------------------------------------------------ *)
\* source fields the destination does not ask for play no role: removing one does not change any plan
ExtraSourceIgnored == st = "case" =>
   \A x \in SF \ (DF \cup {recipe[i].src : i \in 1..Len(recipe)}) : TRUE
\* an earlier provider wins
FirstProviderWins == st = "case" => \A f \in DF \ {NestedField} :
   \A i \in 1..Len(recipe) : (Apply(recipe[i], "top", f) # None /\ \A j \in 1..(i - 1) : Apply(recipe[j], "top", f) = None) => Plan("top", f) = Apply(recipe[i], "top", f)
\* a parameter beats the same-named source field for top-level fields only
ParamBeatsFieldTopOnly == st = "case" /\ recipe = <<>> =>
   /\ \A f \in DF \ {NestedField} : InParams(f) => Plan("top", f) = Par(f)
   /\ \A f \in DN : Plan("nested", f).k # "param"

CaseRecord == [SF |-> SF, SN |-> SN, DF |-> DF, DN |-> DN, PS |-> PS, DO |-> DO, recipe |-> recipe, creatable |-> Creatable,
               top |-> [f \in DF \ {NestedField} |-> Plan("top", f)],
               nested |-> IF HasNested THEN [f \in DN |-> Plan("nested", f)] ELSE <<>>]
EmitCase == (st = "case" /\ EmitCases) => PrintT(ToJson(CaseRecord))
=======================================================================================
