-------------------------------------- MODULE Kinds --------------------------------------
(***************************************************************************************)
(* Model kinds (property C17).  A LOGICAL model is a sequence of fields [id, req, ty]   *)
(* (name, required or defaulted, type).  Each supported kind declares it in its own     *)
(* syntax; what the rest of the library sees is the shape of Layout.tla:                *)
(*                                                                                     *)
(*   kind         req           oreq (accessor cannot fail)   hasdfl (declared default) *)
(*   dataclass    no default    TRUE                          ~req                      *)
(*   namedtuple   no default    TRUE                          ~req                      *)
(*   attrs        no default    TRUE                          ~req                      *)
(*   pydantic     no default    TRUE                          ~req                      *)
(*   sqlalchemy   no column     TRUE                          ~req  (scalar column      *)
(*                default                                      default; the constructor *)
(*                                                             does not apply it:       *)
(*                                                             ctordfl = FALSE)         *)
(*   typeddict    Required key  req  (a NotRequired key may   FALSE (TypedDict has no   *)
(*                              be missing from the object)   defaults)                 *)
(*                                                                                     *)
(* A logical field may be OUTPUT-ONLY (dir = "out"): defined by the class, not taken by *)
(* the constructor.                                                                    *)
(* Documented per-kind limitations (docs/reference/integrations.rst, Python itself):    *)
(*   namedtuple   a field without default cannot follow one with default; no leading   *)
(*                underscore                                                            *)
(*   pydantic     leading-underscore names are private attributes (output only)         *)
(*   sqlalchemy   as_list=True is not supported (order of mapped fields)               *)
(* Everything else - paths, refusals, loading, errors, dumping, extras - is the ONE      *)
(* Layout.tla semantics, which is what "all kinds behave the same" means.               *)
(***************************************************************************************)
EXTENDS Naturals, Sequences, FiniteSets

Kinds == {"dataclass", "namedtuple", "typeddict", "attrs", "pydantic", "sqlalchemy"}
TotalKinds == Kinds \ {"typeddict"}

\* an output-only logical field (dir = "out") is never required on input and declares no default
FieldOf(kind, f) == [id |-> f.id, req |-> f.req /\ f.dir = "io", ty |-> f.ty,
                     oreq |-> (kind # "typeddict") \/ f.req \/ f.dir = "out",
                     hasdfl |-> ~f.req /\ kind # "typeddict" /\ f.dir = "io",
                     ctordfl |-> kind # "sqlalchemy",
                     dir |-> f.dir]
ShapeOf(kind, logical) == [i \in 1..Len(logical) |-> FieldOf(kind, logical[i])]

\* output-only fields exist for dataclass / attrs (field(init=False)) and pydantic (computed fields, which pydantic itself
\* lists after the ordinary fields)
OutOnly(logical) == {i \in 1..Len(logical) : logical[i].dir = "out"}
Supports(kind, logical, aslist) ==
  /\ (OutOnly(logical) # {} => kind \in {"dataclass", "attrs", "pydantic"})
  /\ (kind = "pydantic" => \A i \in OutOnly(logical) : \A j \in 1..Len(logical) : j > i => j \in OutOnly(logical))
  /\ (CASE kind = "namedtuple" -> /\ \A i, j \in 1..Len(logical) : (i < j /\ ~logical[i].req) => ~logical[j].req
                                  /\ \A i \in 1..Len(logical) : logical[i].id.lead = 0
        [] kind = "pydantic"   -> \A i \in 1..Len(logical) : logical[i].id.lead = 0
        [] kind = "sqlalchemy" -> ~aslist
        [] OTHER -> TRUE)

\* a converter between two kinds of one logical model copies every field (all fields present)
ConvertObj(srcKind, dstKind, obj) == obj
=======================================================================================
