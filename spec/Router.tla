------------------------------------ MODULE Router ------------------------------------
(***************************************************************************************)
(* Recipe resolution of a retort (property C09).                                       *)
(*                                                                                     *)
(* Reference semantics  Ref : the documented chain of responsibility -- the provider   *)
(* that serves a request is the first one in recipe order whose predicate matches and  *)
(* that does not decline; `provide_from_next` (used by Chain.FIRST / Chain.LAST and    *)
(* by delegating providers) is a nested search over the providers AFTER the current    *)
(* one; a failed nested search makes the delegating provider decline.                  *)
(*                                                                                     *)
(* Implementation machine (code-shaped): ExactOriginCombiner.register_item /           *)
(* _stop_combo / finalize build the routing items (pairs and origin tables);           *)
(* BasicRequestBus._send_inner + LocatedRequestRouter.route_handler walk them with a   *)
(* search_offset; BuiltinMediator.provide_from_next pushes a nested frame.             *)
(* One action per step of that code.  TLC checks that the optimisation is invisible:   *)
(* the consult log and the produced term equal Ref for EVERY recipe up to MaxLen.      *)
(*                                                                                     *)
(* The request is for origin "A".  For the router a provider is fully described by     *)
(*   c : checker class   exA exB exC   exact-origin checkers (groupable into tables)   *)
(*                       predY / predN any other checker that matches / does not match *)
(*   h : handler kind    plain | decline | first | last | deleg                        *)
(***************************************************************************************)
EXTENDS RouterRef, TLC, Json

CONSTANTS MaxLen,              \* maximal recipe length explored
          ResetComboOnSingle,  \* TRUE: intended design.  FALSE: _stop_combo keeps a one-entry combo (seeded deviation)
          WithTail,                \* TRUE: the recipe is followed by the builtin provider that serves the request
          Req,                 \* "A": a request of origin A;  "U": a request whose type cannot be normalised;
                               \* "F": an unnormalisable request that the builtin recipe refuses TERMINALLY (an unresolvable ForwardRef)
          EmitCases            \* TRUE: print every finished case as a JSON record

\* for an unnormalisable request the builtin recipe has nothing to offer
Full(r) == IF Req = "A" THEN FullIf(WithTail, r)
           ELSE IF ~WithTail THEN r
           ELSE Append(r, IF Req = "F" THEN [c |-> "predY", h |-> "abort"] ELSE [c |-> "predN", h |-> "plain"])
MC == IF Req = "A" THEN {"exA", "predY"} ELSE {"predY"}
\* LocatedRequestRouter.route_handler: origin = normalize_type(type).origin, or a fresh object() that no table contains
OriginClass == IF Req = "A" THEN "exA" ELSE "no such origin"

(* ---------------------------- implementation machine ------------------------------- *)
VARIABLES rec,      \* the recipe under test (sequence of Providers)
          phase,    \* "pick" | "build" | "search" | "done"
          bi,       \* build: number of providers registered so far
          combo,    \* build: ExactOriginCombiner._combo as the sequence of provider indices it holds (insertion order)
          items,    \* LocatedRequestRouter._items : [k |-> "one", i |-> idx] | [k |-> "tab", is |-> <<idx...>>]
          frames,   \* search: stack of _send_inner activations [off, cur, prev, wait]
          ret,      \* search: a response or failure travelling to the parent frame
          log,      \* consult log: provider indices in the order their handlers were called
          res,      \* final outcome
          stub      \* what the recursion stub of the requested location is bound to (RecursiveRequestBus.send: track_response binds
                    \* it to the response of the OUTERMOST send; send_chaining - provide_from_next - must not track)
vars == <<rec, phase, bi, combo, items, frames, ret, log, res, stub>>

NoRet == [has |-> FALSE, ok |-> FALSE, term |-> <<>>]
R == Full(rec)

Init == /\ rec = <<>> /\ phase = "pick" /\ bi = 0 /\ combo = <<>> /\ items = <<>>
        /\ frames = <<>> /\ ret = NoRet /\ log = <<>> /\ res = NoRet /\ stub = <<>>

AddProvider == /\ phase = "pick"
               /\ Len(rec) < MaxLen
               /\ \E p \in Providers : rec' = Append(rec, p)
               /\ UNCHANGED <<phase, bi, combo, items, frames, ret, log, res, stub>>

StartBuild == /\ phase = "pick"
              /\ phase' = "build"
              /\ UNCHANGED <<rec, bi, combo, items, frames, ret, log, res, stub>>

\* ExactOriginCombiner._stop_combo : what is flushed, and what stays in the combo
Flushed(cb) == IF cb = <<>> THEN <<>>
               ELSE IF Len(cb) = 1 THEN <<[k |-> "one", i |-> cb[1], is |-> <<>>]>>
               ELSE <<[k |-> "tab", i |-> 0, is |-> cb]>>
AfterFlush(cb) == IF Len(cb) = 1 /\ ~ResetComboOnSingle THEN cb ELSE <<>>
One(i) == [k |-> "one", i |-> i, is |-> <<>>]

\* ExactOriginCombiner.register_item
Register == /\ phase = "build"
            /\ bi < Len(R)
            /\ LET i == bi + 1
                   p == R[i]
                   sameOrigin == \E j \in 1..Len(combo) : R[combo[j]].c = p.c
               IN IF IsExact(p) /\ ~sameOrigin
                  THEN /\ combo' = Append(combo, i)
                       /\ items' = items
                  ELSE /\ items' = (items \o Flushed(combo)) \o <<One(i)>>
                       /\ combo' = AfterFlush(combo)
            /\ bi' = bi + 1
            /\ UNCHANGED <<rec, phase, frames, ret, log, res, stub>>

\* ExactOriginCombiner.finalize, then the first send(request): _send_inner(request, 0)
Finalize == /\ phase = "build"
            /\ bi = Len(R)
            /\ items' = items \o Flushed(combo)
            /\ combo' = AfterFlush(combo)
            /\ phase' = "search"
            /\ frames' = <<[off |-> 0, cur |-> 0, prev |-> 0, wait |-> FALSE]>>
            /\ UNCHANGED <<rec, bi, ret, log, res, stub>>

Top == frames[Len(frames)]
SetTop(f) == [frames EXCEPT ![Len(frames)] = f]

\* index of the provider an item yields for the request (0 = the item does not serve it)
Hit(it) == IF it.k = "one" THEN (IF R[it.i].c \in MC THEN it.i ELSE 0)
           ELSE LET S == {j \in 1..Len(it.is) : R[it.is[j]].c = OriginClass}     \* origin table lookup .get(origin)
                IN IF S = {} THEN 0 ELSE it.is[CHOOSE j \in S : TRUE]
HitPositions(off) == {j \in (off + 1)..Len(items) : Hit(items[j]) # 0}
Min(S) == CHOOSE x \in S : \A y \in S : x <= y

\* LocatedRequestRouter.route_handler found a handler: the bus calls it (one consult)
Route == /\ phase = "search" /\ ~ret.has
         /\ Top.cur = 0 /\ ~Top.wait
         /\ HitPositions(Top.off) # {}
         /\ LET j == Min(HitPositions(Top.off))
                i == Hit(items[j])
            IN /\ frames' = SetTop([off |-> j, cur |-> i, prev |-> Top.prev, wait |-> FALSE])
               /\ log' = Append(log, i)
         /\ UNCHANGED <<rec, phase, bi, combo, items, ret, res, stub>>

\* route_handler raised StopIteration: this _send_inner fails with (Aggregate)CannotProvide
FrameFail == /\ phase = "search" /\ ~ret.has
             /\ Top.cur = 0 /\ ~Top.wait
             /\ HitPositions(Top.off) = {}
             /\ frames' = SubSeq(frames, 1, Len(frames) - 1)
             /\ ret' = [has |-> TRUE, ok |-> FALSE, term |-> <<>>]
             /\ UNCHANGED <<rec, phase, bi, combo, items, log, res, stub>>

\* the consulted handler returns a response of its own
Return == /\ phase = "search" /\ ~ret.has
          /\ Top.cur # 0 /\ ~Top.wait
          /\ R[Top.cur].h = "plain"
          /\ frames' = SubSeq(frames, 1, Len(frames) - 1)
          /\ ret' = [has |-> TRUE, ok |-> TRUE, term |-> <<Top.cur>>]
          /\ UNCHANGED <<rec, phase, bi, combo, items, log, res, stub>>

\* the consulted handler raises CannotProvide: the bus loop continues behind it
Decline == /\ phase = "search" /\ ~ret.has
           /\ Top.cur # 0 /\ ~Top.wait
           /\ R[Top.cur].h = "decline"
           /\ frames' = SetTop([Top EXCEPT !.prev = Top.cur, !.cur = 0])
           /\ UNCHANGED <<rec, phase, bi, combo, items, ret, log, res, stub>>

\* the consulted handler raises a terminal CannotProvide: every _send_inner activation re-raises it
Abort == /\ phase = "search" /\ ~ret.has
         /\ Top.cur # 0 /\ ~Top.wait
         /\ R[Top.cur].h = "abort"
         /\ frames' = <<>>
         /\ ret' = [has |-> TRUE, ok |-> FALSE, term |-> <<>>]
         /\ UNCHANGED <<rec, phase, bi, combo, items, log, res, stub>>

\* the consulted handler calls mediator.provide_from_next(): send_chaining(request, search_offset)
FromNext == /\ phase = "search" /\ ~ret.has
            /\ Top.cur # 0 /\ ~Top.wait
            /\ R[Top.cur].h \in {"first", "last", "deleg"}
            /\ frames' = Append(SetTop([Top EXCEPT !.wait = TRUE]),
                                [off |-> Top.off, cur |-> 0, prev |-> 0, wait |-> FALSE])
            /\ UNCHANGED <<rec, phase, bi, combo, items, ret, log, res, stub>>

\* a nested search came back to the handler that asked for it
Resume == /\ phase = "search" /\ ret.has /\ frames # <<>>
          /\ Top.wait
          /\ IF ret.ok
             THEN /\ frames' = SubSeq(frames, 1, Len(frames) - 1)            \* compose and return
                  /\ ret' = [has |-> TRUE, ok |-> TRUE, term |-> Compose(R[Top.cur].h, Top.cur, ret.term)]
             ELSE /\ frames' = SetTop([Top EXCEPT !.prev = Top.cur, !.cur = 0, !.wait = FALSE])  \* CannotProvide: decline
                  /\ ret' = NoRet
          /\ UNCHANGED <<rec, phase, bi, combo, items, log, res, stub>>

Finish == /\ phase = "search" /\ ret.has /\ frames = <<>>
          /\ res' = ret
          /\ ret' = NoRet
          /\ phase' = "done"
          /\ stub' = ret.term                  \* track_response: every recursive re-entry of the location runs the composed result
          /\ UNCHANGED <<rec, bi, combo, items, frames, log>>

Next == AddProvider \/ StartBuild \/ Register \/ Finalize \/ Route \/ FrameFail \/ Return \/ Decline \/ Abort
        \/ FromNext \/ Resume \/ Finish

Spec == Init /\ [][Next]_vars

(* ---------------------------- properties (C09) ------------------------------------- *)
RefR == RefG(R, 1, MC)

\* the table optimisation is invisible: same providers consulted in the same order, same outcome
RouterEquiv == phase = "done" => /\ log = RefR.log
                                 /\ res.ok = RefR.ok
                                 /\ res.term = RefR.term

\* within one search (one _send_inner activation) providers are consulted in strictly increasing recipe order,
\* hence no provider twice, and nothing before the provider that asked for `next`
IncreasingPerFrame == \A k \in 1..Len(frames) : frames[k].cur = 0 \/ frames[k].cur > frames[k].prev
NestedBehind == \A k \in 2..Len(frames) : frames[k].cur = 0 \/ frames[k].cur > frames[k - 1].cur

\* a chained function is applied exactly once in the produced loader
ChainOnce == phase = "done" /\ res.ok => \A a, b \in 1..Len(res.term) : a # b => res.term[a] # res.term[b]

\* a location that is re-entered recursively runs the same composition as the first entry: Chain.FIRST / Chain.LAST apply
\* exactly once at EVERY level of a recursive datum (replayed on self-referential models by vf/props/c09.py recursive_chains)
StubIsFinal == phase = "done" /\ res.ok => stub = res.term

\* a terminal refusal ends the request at once: nothing is consulted after the aborting provider
AbortIsLast == phase = "done" => \A a \in 1..Len(log) : R[log[a]].h = "abort" => (a = Len(log) /\ ~res.ok)

\* a successful request never consults a provider twice
NoTwiceOnSuccess == phase = "done" /\ res.ok => \A a, b \in 1..Len(log) : a # b => log[a] # log[b]

\* first match: the serving provider (innermost one of the chain) is the first plain matching provider reached
\* after only declining / delegating ones
FirstMatch == phase = "done" /\ res.ok =>
                 \A a \in 1..Len(log) : R[log[a]].h = "plain" => a = Len(log)

(* ---------------------------- case emission ---------------------------------------- *)
CaseRecord == [rec |-> rec, tail |-> WithTail, req |-> Req, ok |-> RefR.ok, term |-> RefR.term, log |-> RefR.log,
               items |-> [j \in 1..Len(items) |-> IF items[j].k = "one" THEN <<items[j].i>> ELSE items[j].is]]
EmitCase == phase = "done" /\ EmitCases => PrintT(ToJson(CaseRecord))
=======================================================================================
