----------------------------------- MODULE TypePools -----------------------------------
(***************************************************************************************)
(* The bounded universe of type expressions explored by the Load / Dump sweeps.        *)
(***************************************************************************************)
EXTENDS Load

CONSTANTS ElemKinds,     \* scalar kinds used as element types inside containers
          IterTypeKinds, \* iterable type constructors explored
          Deep           \* TRUE: also two-level containers

Ty(k, a, v) == [k |-> k, a |-> a, v |-> v]
Sc(k) == Ty(k, <<>>, <<>>)
Lit(v) == Ty("literal", <<>>, v)
Opt(T) == Ty("union", <<T, Sc("None")>>, <<>>)
Un(ts) == Ty("union", ts, <<>>)

ScalarTypes == {Sc(k) : k \in ScalarKinds}
LiteralTypes == {Lit(<<"i0", "i1">>), Lit(<<"bF", "bT">>), Lit(<<"i1">>), Lit(<<"i2">>), Lit(<<"s_a", "i2", "none">>),
                 Lit(<<"i2", "s_a", "s_int", "i_neg", "i_big">>), Lit(<<"i0", "s_a", "s_int", "i_neg", "i_big">>),
                 Lit(<<"bT", "s_a">>),
                 \* a bool member and an int member of DIFFERENT value: the type test and the value test must not be made separately
                 Lit(<<"i0", "bT">>), Lit(<<"i1", "bF">>), Lit(<<"bF", "i2">>), Lit(<<"i0", "bT", "s_a", "i2", "none">>),
                 \* Enum and bytes members next to members of the bool / int look-alike group and to plain ones
                 Lit(<<"e_a">>), Lit(<<"e_a", "e_b">>), Lit(<<"i0", "e_a">>), Lit(<<"i1", "e_b">>), Lit(<<"bT", "e_a", "e_b">>),
                 Lit(<<"s_a", "e_a">>), Lit(<<"i2", "e_b">>), Lit(<<"by_a">>), Lit(<<"i0", "by_a">>), Lit(<<"s_a", "by_a", "e_b">>),
                 Lit(<<"bF", "by_a", "e_a">>),
                 \* IntEnum members next to plain ints: the datum of a plain member must not come back as an unlisted IntEnum member
                 Lit(<<"i1", "ie_b">>), Lit(<<"i2", "ie_a">>), Lit(<<"ie_a", "ie_b", "s_a">>)}
UnionTypes == {Opt(Sc("int")), Opt(Sc("str")), Opt(Sc("Decimal")), Opt(Sc("bool")),
               Un(<<Sc("int"), Sc("str")>>), Un(<<Sc("str"), Sc("int")>>), Un(<<Sc("bool"), Sc("int")>>),
               Un(<<Sc("int"), Sc("float")>>), Un(<<Sc("int"), Sc("str"), Sc("None")>>),
               Un(<<Sc("date"), Sc("int")>>), Un(<<Lit(<<"i1">>), Sc("str")>>), Un(<<Sc("float"), Sc("Decimal")>>),
               Opt(Lit(<<"i0", "i1">>)), Un(<<Lit(<<"i1">>), Sc("Decimal")>>), Un(<<Sc("bool"), Sc("str")>>),
               Un(<<Sc("Decimal"), Sc("date"), Sc("None")>>), Un(<<Lit(<<"s_a">>), Sc("int")>>), Un(<<Sc("bytes"), Sc("int")>>),
               Un(<<Sc("timedelta"), Sc("str")>>)}
WrapTypes == {Ty("newtype", <<Sc("int")>>, <<>>), Ty("annotated", <<Sc("str")>>, <<>>),
              Ty("newtype", <<Opt(Sc("int"))>>, <<>>), Ty("annotated", <<Lit(<<"i0", "i1">>)>>, <<>>)}
FlatTypes == ScalarTypes \cup LiteralTypes \cup UnionTypes \cup WrapTypes

ElemTypes == {Sc(k) : k \in ElemKinds} \cup {Opt(Sc("int")), Lit(<<"i0", "i1">>), Un(<<Sc("int"), Sc("str")>>)}
KeyTypes == {Sc("str"), Sc("int"), Lit(<<"s_a", "i1">>)} \cup {Sc(k) : k \in ElemKinds \cap {"Decimal", "date", "bool", "float"}}
\* every documented iterable constructor is explored in every profile: those outside IterTypeKinds with two element types
Iter1Types == {Ty(k, <<e>>, <<>>) : k \in IterTypeKinds, e \in ElemTypes}
              \cup {Ty(k, <<e>>, <<>>) : k \in IterKinds \ IterTypeKinds, e \in {Sc("int"), Opt(Sc("str"))}}
Dict1Types == {Ty(k, <<kt, vt>>, <<>>) : k \in DictKinds, kt \in KeyTypes, vt \in ElemTypes}
Tuple1Types == {Ty("tuple_fix", <<e>>, <<>>) : e \in ElemTypes} \cup
               {Ty("tuple_fix", <<e, f>>, <<>>) : e \in {Sc("int"), Sc("str"), Opt(Sc("int"))}, f \in ElemTypes}
               \cup {Ty("tuple_fix", <<>>, <<>>)}
Cont1Types == Iter1Types \cup Dict1Types \cup Tuple1Types
LI == Ty("list", <<Sc("int")>>, <<>>)
Cont2Types == IF ~Deep THEN {} ELSE
   {Ty("list", <<LI>>, <<>>), Ty("Sequence", <<LI>>, <<>>), Ty("list", <<Ty("dict", <<Sc("str"), Sc("int")>>, <<>>)>>, <<>>),
    Ty("dict", <<Sc("str"), LI>>, <<>>), Ty("dict", <<Sc("str"), Ty("dict", <<Sc("int"), Sc("str")>>, <<>>)>>, <<>>),
    Ty("tuple_fix", <<Sc("int"), LI>>, <<>>), Opt(LI), Ty("list", <<Opt(LI)>>, <<>>),
    Un(<<Sc("str"), LI>>), Un(<<LI, Ty("dict", <<Sc("str"), Sc("int")>>, <<>>)>>),
    Ty("list", <<Ty("tuple_fix", <<Sc("int"), Sc("str")>>, <<>>)>>, <<>>),
    Ty("Mapping", <<Sc("str"), Ty("tuple_var", <<Sc("int")>>, <<>>)>>, <<>>),
    Ty("newtype", <<LI>>, <<>>), Ty("list", <<Ty("newtype", <<Sc("int")>>, <<>>)>>, <<>>),
    Ty("frozenset", <<Ty("tuple_fix", <<Sc("int"), Sc("str")>>, <<>>)>>, <<>>)}
AllTypes == FlatTypes \cup Cont1Types \cup Cont2Types

\* types served by a user supplied loader (Load.tla "user"): alone, in unions before / behind builtin cases, in containers
UserT == Ty("user", <<>>, <<"int">>)          \* gamma: a NewType (sorts behind the builtin classes in a normalised union)
UserE == Ty("user", <<>>, <<"int", "early">>) \* gamma: a class whose textual form sorts in front of them
UserFlat == {UserE, Un(<<UserE, Sc("str")>>), Un(<<Sc("str"), UserE>>), Un(<<UserE, Sc("str"), Sc("None")>>), Un(<<UserE, Sc("float")>>),
             Un(<<UserE, UserT>>), Opt(UserE), Un(<<Lit(<<"s_a">>), UserE>>)} \cup
            {UserT, Un(<<UserT, Sc("str")>>), Un(<<Sc("str"), UserT>>), Opt(UserT), Un(<<UserT, Sc("str"), Sc("None")>>),
             Un(<<Sc("None"), UserT, Sc("bool")>>), Un(<<UserT, Sc("float")>>), Un(<<Sc("float"), UserT>>), Un(<<Lit(<<"s_a">>), UserT>>),
             Un(<<Sc("Decimal"), UserT, Sc("str")>>), Ty("newtype", <<Un(<<UserT, Sc("str")>>)>>, <<>>)}
UserCont == {Ty("list", <<Un(<<UserE, Sc("str")>>)>>, <<>>), Ty("dict", <<Sc("str"), Un(<<UserE, Sc("str")>>)>>, <<>>),
             Ty("list", <<UserT>>, <<>>), Ty("list", <<Un(<<UserT, Sc("str")>>)>>, <<>>), Ty("dict", <<Sc("str"), UserT>>, <<>>),
             Ty("tuple_fix", <<UserT, Sc("str")>>, <<>>), Ty("dict", <<UserT, Sc("int")>>, <<>>), Ty("set", <<Un(<<Sc("str"), UserT>>)>>, <<>>),
             Ty("tuple_var", <<Opt(UserT)>>, <<>>)}
UserTypes == UserFlat \cup UserCont

=======================================================================================
