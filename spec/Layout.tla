------------------------------------ MODULE Layout ------------------------------------
(***************************************************************************************)
(* The outer layout of models (properties C03, C05, C08, C17, C19), transcribed from   *)
(* the "Name mapping" section of docs/loading-and-dumping/extended-usage.rst.          *)
(*                                                                                     *)
(* A PROGRAM is (shape, recipe of name_mapping overlays).  The documented pipeline is   *)
(*    Schema(recipe)   earlier provider overrides later ones, `map` concatenates       *)
(*    Key(f)           as_list index | trim trailing underscore -> name style          *)
(*    Path(f)          first matching map entry wins, else the key; `...` replaced by  *)
(*                     the key; None = skipped; then skip > only                       *)
(*    Refused          duplicate / prefix paths, optional field at a list index,       *)
(*                     dict/list steps mixed under one node, (input) a skipped         *)
(*                     required field, collecting extra_in with a list step            *)
(*    LoadModel(d)     every field from exactly its path; unknown keys by policy       *)
(*    DumpModel(o)     every field to exactly its path; omit_default; extras merged;   *)
(*                     list gaps filled with None                                      *)
(* Names and keys are uninterpreted records, rendered to strings by gamma.             *)
(***************************************************************************************)
EXTENDS Naturals, Sequences, FiniteSets, TLC

(* ------------------------------ names, keys, paths ---------------------------------- *)
\* field id  [w |-> <<word tokens>>, us |-> trailing underscores, lead |-> leading underscores]
\* generated key  [g |-> "gen", id |-> field id with us after trimming, style |-> style token]
\* explicit key   [g |-> "key", k |-> opaque key token]      list index  [g |-> "idx", i |-> n]
GenKey(id, trim, style) == [g |-> "gen", id |-> IF trim /\ id.us = 1 THEN [id EXCEPT !.us = 0] ELSE id, style |-> style, k |-> "-", i |-> 0]
OpKey(k)  == [g |-> "key", id |-> [w |-> <<>>, us |-> 0, lead |-> 0], style |-> "-", k |-> k, i |-> 0]
IdxKey(i) == [g |-> "idx", id |-> [w |-> <<>>, us |-> 0, lead |-> 0], style |-> "-", k |-> "-", i |-> i]
IsIdx(k)  == k.g = "idx"
Ell       == [g |-> "ell", id |-> [w |-> <<>>, us |-> 0, lead |-> 0], style |-> "-", k |-> "-", i |-> 0]

(* ------------------------------ schema merge ---------------------------------------- *)
\* every overlay parameter is an option record  [o |-> FALSE] (Omitted) | [o |-> TRUE, v |-> x]
Nil == [o |-> FALSE]
Some(x) == [o |-> TRUE, v |-> x]
AnySel == [any |-> TRUE, s |-> {}]             \* selector: every field
SetSel(S) == [any |-> FALSE, s |-> S]          \* selector: the fields with these ids
Sel(s, id) == s.any \/ id \in s.s

\* the builtin name_mapping at the end of every recipe
Builtin == [map |-> <<>>, style |-> "none", trim |-> TRUE, skip |-> SetSel({}), only |-> AnySel, aslist |-> FALSE,
            omit |-> SetSel({}), extra_in |-> [p |-> "skip", f |-> 0], extra_out |-> [p |-> "skip", f |-> 0]]
Params == {"style", "trim", "skip", "only", "aslist", "omit", "extra_in", "extra_out"}

\* "The first provider override parameters of next providers";  "A new map does not replace others.  The new iterable is
\*  concatenated to the previous."
RECURSIVE PickParam(_, _, _)
PickParam(ovs, name, i) == IF i > Len(ovs) THEN Builtin[name]
                           ELSE IF ovs[i][name].o THEN ovs[i][name].v ELSE PickParam(ovs, name, i + 1)
RECURSIVE ConcatMaps(_, _)
ConcatMaps(ovs, i) == IF i > Len(ovs) THEN <<>> ELSE (IF ovs[i].map.o THEN ovs[i].map.v ELSE <<>>) \o ConcatMaps(ovs, i + 1)
Schema(ovs) == [map |-> ConcatMaps(ovs, 1), style |-> PickParam(ovs, "style", 1), trim |-> PickParam(ovs, "trim", 1),
                skip |-> PickParam(ovs, "skip", 1), only |-> PickParam(ovs, "only", 1), aslist |-> PickParam(ovs, "aslist", 1),
                omit |-> PickParam(ovs, "omit", 1), extra_in |-> PickParam(ovs, "extra_in", 1),
                extra_out |-> PickParam(ovs, "extra_out", 1)]

(* ------------------------------ key and path of a field ----------------------------- *)
\* shape = sequence of fields  [id, req, ty, oreq, hasdfl, ctordfl, dir]     (position = order of definition)
\*   dir     "io" an ordinary field | "out" an OUTPUT-ONLY field: it is defined by the class like any other field (so it has
\*           a position) but the constructor does not take it (dataclass / attrs field(init=False), a computed field): the
\*           dumper writes it, the loader does not know it, the loaded object holds what the constructor derives (DerivedV).
\*           "Position at the list is determined by order of field definition": ONE numbering for both directions.
\*   ty      "int" | "str" | "any" | "dec" (a type whose external representation differs from the value: Decimal <-> str; the
\*           model's values are abstract, so this only matters to the concretisation - and to the code)
\*   req     required on input (no default / Required key)        oreq    the accessor cannot fail (everything but optional TypedDict keys)
\*   hasdfl  a default is declared (never for TypedDict keys)
\*   ctordfl the constructor itself applies the declared default to a parameter it is not given (not SQLAlchemy: column defaults
\*           are applied when the row is flushed, the attribute reads None until then)
\* see Kinds.tla for how each model kind declares a logical field
\* map entry  [sel |-> selector, spec |-> [t |-> "path", p |-> <<key | Ell ...>>] | [t |-> "none"]]
Key(sch, i, f) == IF sch.aslist THEN IdxKey(i - 1) ELSE GenKey(f.id, sch.trim, sch.style)
MapHits(sch, f) == {n \in 1..Len(sch.map) : Sel(sch.map[n].sel, f.id)}
Resolve(p, key) == [n \in 1..Len(p) |-> IF p[n] = Ell THEN key ELSE p[n]]
SKIP == <<>>
\* "Mapper tries to use the value from the map.  If the field is not presented in the map, trim trailing underscore and
\*  convert name style";  "Only the first element matched by its predicate is used";  "None that means skipped field"
MappedPath(sch, i, f) ==
  LET hits == MapHits(sch, f) IN
  IF hits = {} THEN <<Key(sch, i, f)>>
  ELSE LET e == sch.map[CHOOSE n \in hits : \A m \in hits : n <= m] IN
       IF e.spec.t = "none" THEN SKIP ELSE Resolve(e.spec.p, Key(sch, i, f))
\* "skip parameter has higher priority than only";  extra targets are not part of the layout
IsExtraTarget(extra, i) == extra.p \in {"target"} /\ extra.f = i
FieldPath(sch, extra, i, f) ==
  IF IsExtraTarget(extra, i) THEN SKIP
  ELSE LET p == MappedPath(sch, i, f) IN
       IF p = SKIP THEN SKIP ELSE IF ~Sel(sch.skip, f.id) /\ Sel(sch.only, f.id) THEN p ELSE SKIP
\* output side: private fields are skipped unless the map names them
OutFieldPath(sch, extra, i, f) ==
  IF f.id.lead > 0 /\ MapHits(sch, f) = {} THEN SKIP ELSE FieldPath(sch, extra, i, f)

Paths(sch, shape, dir) == [i \in 1..Len(shape) |-> IF dir = "in" THEN (IF shape[i].dir = "out" THEN SKIP ELSE FieldPath(sch, sch.extra_in, i, shape[i]))
                                                   ELSE OutFieldPath(sch, sch.extra_out, i, shape[i])]
Live(ps) == {i \in 1..Len(ps) : ps[i] # SKIP}
IsPrefix(p, q) == Len(p) < Len(q) /\ SubSeq(q, 1, Len(p)) = p
PathSet(ps) == {ps[i] : i \in Live(ps)}
Prefixes(PS) == UNION {{SubSeq(p, 1, n) : n \in 0..(Len(p) - 1)} : p \in PS}
ChildKeys(PS, pre) == {p[Len(pre) + 1] : p \in {q \in PS : IsPrefix(pre, q)}}
NodeIsList(PS, pre) == \E k \in ChildKeys(PS, pre) : IsIdx(k)

Collecting(extra) == extra.p \in {"kwargs", "target", "saturate"}

\* is the field required in this direction?  (input: no default; output: the accessor cannot fail -- only TypedDict
\* total=False keys and the like are output-optional, field attribute oreq)
ReqIn(f, dir) == IF dir = "in" THEN f.req ELSE f.oreq

\* creation must be refused exactly in these cases
Refused(sch, shape, dir) ==
  LET ps == Paths(sch, shape, dir)
      L == Live(ps)
      PS == PathSet(ps)
  IN \/ (dir = "in" /\ \E i \in 1..Len(shape) : shape[i].req /\ i \notin L /\ ~IsExtraTarget(sch.extra_in, i))  \* required field skipped
     \/ \E i, j \in L : i # j /\ (ps[i] = ps[j] \/ IsPrefix(ps[i], ps[j]))                  \* duplicate path / path prefix of another
     \/ \E i \in L : ~ReqIn(shape[i], dir) /\ IsIdx(ps[i][Len(ps[i])])                       \* optional field at a list index
     \/ \E pre \in Prefixes(PS) : \E k1, k2 \in ChildKeys(PS, pre) : IsIdx(k1) # IsIdx(k2)     \* dict and list steps under one node
     \/ (dir = "in" /\ Collecting(sch.extra_in) /\ \E p \in PS : \E n \in 1..Len(p) : IsIdx(p[n]))  \* collecting extras with a list step
     \/ (dir = "in" /\ Collecting(sch.extra_in) /\ sch.aslist /\ L = {})
     \* extra data is merged into the outermost mapping of the dump: there must be one
     \/ (dir = "out" /\ sch.extra_out.p \in {"target", "extract"} /\ (NodeIsList(PS, <<>>) \/ (sch.aslist /\ L = {})))

(* ------------------------------ data ------------------------------------------------- *)
\* [c |-> "atom", a |-> "good"|"bad"|"none"|"xtra", f |-> n]      good / ill-typed value for field n, None, an extra value n
\* [c |-> "dict", ks |-> <<keys>>, vs |-> <<data>>]    [c |-> "list", xs |-> <<data>>]
GoodV(i) == [c |-> "atom", a |-> "good", f |-> i]
BadV(i)  == [c |-> "atom", a |-> "bad", f |-> i]
NoneV    == [c |-> "atom", a |-> "none", f |-> 0]
OddV     == [c |-> "atom", a |-> "odd", f |-> 0]      \* an object that is subscriptable but neither a mapping nor a sequence (re.Match, sqlite3.Row)
XtraV(n) == [c |-> "atom", a |-> "xtra", f |-> n]
DflV(i)  == [c |-> "atom", a |-> "dfl", f |-> i]      \* the declared default of field i
FalsyV(i) == [c |-> "atom", a |-> "falsy", f |-> i]    \* a well-typed falsy value of field i that is NOT its default (0, "", None, [])
DerivedV(i) == [c |-> "atom", a |-> "derived", f |-> i] \* what the constructor itself computes for the output-only field i
AbsentV  == [c |-> "atom", a |-> "absent", f |-> 0]    \* the field is not there at all (a TypedDict key that is not required)
Dict(ks, vs) == [c |-> "dict", ks |-> ks, vs |-> vs, xs |-> <<>>]
List(xs) == [c |-> "list", ks |-> <<>>, vs |-> <<>>, xs |-> xs]
Atomic(d) == d.c = "atom"
HasKey(d, k) == \E n \in 1..Len(d.ks) : d.ks[n] = k
Get(d, k) == d.vs[CHOOSE n \in 1..Len(d.ks) : d.ks[n] = k]
KeysOf(d) == {d.ks[n] : n \in 1..Len(d.ks)}

FieldAt(ps, p) == {i \in Live(ps) : ps[i] = p}
MaxIdx(CK) == CHOOSE m \in {k.i : k \in CK} : \A k \in CK : k.i <= m

\* ---- loading ------------------------------------------------------------------------------
\* result of a node: [errs |-> set of [trail, kind, keys], vals |-> set of <<field, value>>, extra |-> collected unknown data]
NoRes == [errs |-> {}, vals |-> {}, extra |-> Dict(<<>>, <<>>)]
Err(trail, kind, keys) == [trail |-> trail, kind |-> kind, keys |-> keys]
\* a well-typed value of field i (the declared default is one; a field typed Any takes everything)
LeafOkS(shape, i, d) == shape[i].ty = "any" \/ d \in {GoodV(i), DflV(i), FalsyV(i)}

RECURSIVE SetToSeqK(_)
SetToSeqK(S) == IF S = {} THEN <<>> ELSE LET x == CHOOSE y \in S : TRUE IN <<x>> \o SetToSeqK(S \ {x})

RECURSIVE LoadAt(_, _, _, _, _)
LoadAt(sch, shape, ps, pre, d) ==
  LET PS == PathSet(ps)
      CK == ChildKeys(PS, pre)
  IN
  IF NodeIsList(PS, pre)
  THEN IF d.c # "list" THEN [NoRes EXCEPT !.errs = {Err(pre, "Type", {})}]
       ELSE LET n == MaxIdx(CK) + 1
                sub == [k \in CK |->
                          IF k.i + 1 > Len(d.xs) THEN NoRes
                          ELSE LET here == FieldAt(ps, Append(pre, k)) IN
                               IF here # {} THEN LET i == CHOOSE x \in here : TRUE IN
                                    IF LeafOkS(shape, i, d.xs[k.i + 1]) THEN [NoRes EXCEPT !.vals = {<<i, d.xs[k.i + 1]>>}]
                                    ELSE [NoRes EXCEPT !.errs = {Err(Append(pre, k), "Leaf", {})}]
                               ELSE LoadAt(sch, shape, ps, Append(pre, k), d.xs[k.i + 1])]
                lenErr == IF Len(d.xs) < n THEN {Err(pre, "NoRequiredItems", {})}
                          ELSE IF sch.extra_in.p = "forbid" /\ Len(d.xs) > n THEN {Err(pre, "ExtraItems", {})} ELSE {}
            IN [errs |-> lenErr \cup UNION {sub[k].errs : k \in CK}, vals |-> UNION {sub[k].vals : k \in CK}, extra |-> Dict(<<>>, <<>>)]
  ELSE IF d.c # "dict" THEN [NoRes EXCEPT !.errs = {Err(pre, "Type", {})}]
       ELSE LET isOpt(k) == LET here == FieldAt(ps, Append(pre, k)) IN here # {} /\ ~shape[CHOOSE x \in here : TRUE].req
                missing == {k \in CK : ~isOpt(k) /\ ~HasKey(d, k)}
                present == {k \in CK : HasKey(d, k)}
                sub == [k \in present |->
                          LET here == FieldAt(ps, Append(pre, k)) IN
                          IF here # {} THEN LET i == CHOOSE x \in here : TRUE IN
                               IF LeafOkS(shape, i, Get(d, k)) THEN [NoRes EXCEPT !.vals = {<<i, Get(d, k)>>}]
                               ELSE [NoRes EXCEPT !.errs = {Err(Append(pre, k), "Leaf", {})}]
                          ELSE LoadAt(sch, shape, ps, Append(pre, k), Get(d, k))]
                unknown == KeysOf(d) \ CK
                extraErr == IF sch.extra_in.p = "forbid" /\ unknown # {} THEN {Err(pre, "ExtraFields", unknown)} ELSE {}
                \* "collected unknown fields will have original names": unknown keys of this node, and under the key of every
                \* nested dict node the unknown data collected there - the collected mapping MIRRORS the nested nodes, a node
                \* without unknown keys contributes an empty mapping (the documentation is silent; the repository's own
                \* test_structure_flattening pins it: extra = {"z": {}, ...})
                nested == {k \in present : FieldAt(ps, Append(pre, k)) = {}}
                xkeys == SetToSeqK(unknown \cup nested)
                extra == Dict(xkeys, [m \in 1..Len(xkeys) |-> IF xkeys[m] \in unknown THEN Get(d, xkeys[m]) ELSE sub[xkeys[m]].extra])
            IN [errs |-> (IF missing # {} THEN {Err(pre, "NoRequiredFields", missing)} ELSE {}) \cup extraErr
                         \cup UNION {sub[k].errs : k \in present},
                vals |-> UNION {sub[k].vals : k \in present},
                extra |-> IF Collecting(sch.extra_in) THEN extra ELSE Dict(<<>>, <<>>)]

\* the loaded object: every live field holds the value found at its path, an absent optional field its declared default;
\* unknown data goes nowhere (skip), is rejected (forbid) or is delivered to kwargs / the target field / the saturator
LoadModel(sch, shape, d) ==
  LET ps == Paths(sch, shape, "in")
      r == LoadAt(sch, shape, ps, <<>>, d)
      fromData == {v[1] : v \in r.vals}
  IN  IF r.errs # {} THEN [ok |-> FALSE, errs |-> r.errs, obj |-> <<>>, extra |-> Dict(<<>>, <<>>)]
      ELSE [ok |-> TRUE, errs |-> {},
            obj |-> [i \in 1..Len(shape) |->
                       IF shape[i].dir = "out" THEN DerivedV(i)
                       ELSE IF i \in fromData THEN (CHOOSE v \in r.vals : v[1] = i)[2]
                       ELSE IF IsExtraTarget(sch.extra_in, i) THEN [c |-> "atom", a |-> "extras", f |-> 0]
                       \* in the layout but not in the data: the loader supplies the declared default itself;
                       \* not in the layout (skipped): nothing is passed and the constructor decides
                       ELSE IF ~shape[i].hasdfl THEN AbsentV
                       ELSE IF i \in Live(ps) \/ shape[i].ctordfl THEN DflV(i) ELSE NoneV],
            extra |-> r.extra]

\* ---- dumping ------------------------------------------------------------------------------
\* obj = sequence of field values (GoodV(i) or DflV(i)); "Values that are equal to default, will be stripped"
\* an output-optional field (oreq = FALSE) that is absent from the object is left out whatever omit_default says
Omitted(sch, shape, obj, i) == \/ ~shape[i].req /\ shape[i].hasdfl /\ Sel(sch.omit, shape[i].id) /\ obj[i] = DflV(i)
                               \/ obj[i] = AbsentV
RECURSIVE DumpAt(_, _, _, _, _)
DumpAt(sch, shape, ps, obj, pre) ==
  LET PS == PathSet(ps)
      CK == ChildKeys(PS, pre)
  IN
  IF NodeIsList(PS, pre)
  THEN LET n == MaxIdx(CK) + 1 IN
       List([j \in 1..n |-> LET k == IdxKey(j - 1) IN
                            IF k \notin CK THEN NoneV                              \* "list layouts fill gaps with None placeholders"
                            ELSE LET here == FieldAt(ps, Append(pre, k)) IN
                                 IF here # {} THEN obj[CHOOSE x \in here : TRUE] ELSE DumpAt(sch, shape, ps, obj, Append(pre, k))])
  ELSE LET keep == {k \in CK : LET here == FieldAt(ps, Append(pre, k)) IN
                               here = {} \/ ~Omitted(sch, shape, obj, CHOOSE x \in here : TRUE)}
           ks == SetToSeqK(keep)
       IN Dict(ks, [m \in 1..Len(ks) |-> LET here == FieldAt(ps, Append(pre, ks[m])) IN
                                         IF here # {} THEN obj[CHOOSE x \in here : TRUE] ELSE DumpAt(sch, shape, ps, obj, Append(pre, ks[m]))])
\* a field value its own dumper refuses (BadV) makes the whole dump fail - in every debug mode - unless the field is not dumped at all
DumpFails(sch, shape, obj) == LET ps == Paths(sch, shape, "out") IN
                              \E i \in Live(ps) : obj[i] = BadV(i) /\ ~Omitted(sch, shape, obj, i)
\* "Dumper of this field must return a mapping that will be merged with dict of dumped representation" / extractor likewise.
\* The extra mapping of the test objects is {u1: xtra 1}.
DumpModel(sch, shape, obj) ==
  LET r == DumpAt(sch, shape, Paths(sch, shape, "out"), obj, <<>>) IN
  IF sch.extra_out.p \in {"target", "extract"} /\ r.c = "dict"
  THEN Dict(Append(r.ks, OpKey("u1")), Append(r.vs, XtraV(1)))
  ELSE r

(* ------------------------------ canonical inputs (probes) ---------------------------- *)
\* the input the layout prescribes for an object in which the fields `absent` are left out and the fields `bad` ill-typed
RECURSIVE DataFor(_, _, _, _, _)
DataFor(shape, ps, pre, absent, bad) ==
  LET PS == {ps[i] : i \in Live(ps) \ absent}
      ALL == PathSet(ps)
      CK == ChildKeys(PS, pre)
      leaf(i) == IF i \in bad THEN BadV(i) ELSE GoodV(i)
  IN
  IF NodeIsList(ALL, pre)
  THEN LET AK == ChildKeys(ALL, pre)
           n == MaxIdx(AK) + 1 IN
       List([j \in 1..n |-> LET k == IdxKey(j - 1) IN
                            IF k \notin AK THEN NoneV
                            ELSE LET here == FieldAt(ps, Append(pre, k)) IN
                                 IF here # {} THEN leaf(CHOOSE x \in here : TRUE) ELSE DataFor(shape, ps, Append(pre, k), absent, bad)])
  ELSE LET ks == SetToSeqK(CK) IN
       Dict(ks, [m \in 1..Len(ks) |-> LET here == FieldAt(ps, Append(pre, ks[m])) IN
                                      IF here # {} THEN leaf(CHOOSE x \in here : TRUE) ELSE DataFor(shape, ps, Append(pre, ks[m]), absent, bad)])

\* replace the sub-datum at a path / add unknown keys at a dict node
RECURSIVE Subst(_, _, _), AddKeys(_, _, _)
Subst(d, p, new) ==
  IF p = <<>> THEN new
  ELSE IF IsIdx(p[1]) THEN (IF d.c = "list" /\ p[1].i + 1 <= Len(d.xs) THEN [d EXCEPT !.xs[p[1].i + 1] = Subst(@, Tail(p), new)] ELSE d)
  ELSE IF d.c = "dict" /\ HasKey(d, p[1])
       THEN LET n == CHOOSE m \in 1..Len(d.ks) : d.ks[m] = p[1] IN [d EXCEPT !.vs[n] = Subst(@, Tail(p), new)]
       ELSE d
AddKeys(d, p, kvs) ==
  IF p = <<>> THEN (IF d.c = "dict" THEN Dict(d.ks \o [m \in 1..Len(kvs) |-> kvs[m][1]], d.vs \o [m \in 1..Len(kvs) |-> kvs[m][2]]) ELSE d)
  ELSE IF IsIdx(p[1]) THEN (IF d.c = "list" /\ p[1].i + 1 <= Len(d.xs) THEN [d EXCEPT !.xs[p[1].i + 1] = AddKeys(@, Tail(p), kvs)] ELSE d)
  ELSE IF d.c = "dict" /\ HasKey(d, p[1])
       THEN LET n == CHOOSE m \in 1..Len(d.ks) : d.ks[m] = p[1] IN [d EXCEPT !.vs[n] = AddKeys(@, Tail(p), kvs)]
       ELSE d
RemoveKey(d, p) ==   \* remove the entry at path p (a dict key) / truncate a list before index
  LET parent == SubSeq(p, 1, Len(p) - 1)
      k == p[Len(p)]
      RECURSIVE Rm(_, _)
      Rm(x, q) == IF q = <<>>
                  THEN (IF IsIdx(k) THEN (IF x.c = "list" /\ k.i <= Len(x.xs) THEN List(SubSeq(x.xs, 1, k.i)) ELSE x)
                        ELSE IF x.c = "dict" THEN LET keep == {m \in 1..Len(x.ks) : x.ks[m] # k}
                                                      sq == SetToSeqK(keep) IN Dict([m \in 1..Len(sq) |-> x.ks[sq[m]]], [m \in 1..Len(sq) |-> x.vs[sq[m]]])
                        ELSE x)
                  ELSE IF IsIdx(q[1]) THEN (IF x.c = "list" /\ q[1].i + 1 <= Len(x.xs) THEN [x EXCEPT !.xs[q[1].i + 1] = Rm(@, Tail(q))] ELSE x)
                  ELSE IF x.c = "dict" /\ HasKey(x, q[1])
                       THEN LET n == CHOOSE m \in 1..Len(x.ks) : x.ks[m] = q[1] IN [x EXCEPT !.vs[n] = Rm(@, Tail(q))]
                       ELSE x
  IN Rm(d, parent)
=======================================================================================
