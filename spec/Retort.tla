------------------------------------- MODULE Retort -------------------------------------
(***************************************************************************************)
(* The facade state machine of a retort (property C11): results never depend on call   *)
(* history; replace() / extend() return new retorts and leave the original unchanged.  *)
(*                                                                                     *)
(* Two layers.  HISTORY-FREE: the response to a request is Resp(construction, request) *)
(* - a function of how the retort was built only.  CACHED: what the code does - a       *)
(* facade cache per retort (type -> produced callable) and a call cache (key -> closure)*)
(* shared by all requests of one retort; a request first looks its keys up.  The caches *)
(* compare keys with an equality KeyEq.  TLC checks the refinement                      *)
(*        Cached => HistoryFree   (every response equals the history-free response)     *)
(* for KeyEq = "typed"; with KeyEq = "py" (Python's ==, under which (0, 1) equals       *)
(* (False, True)) it produces the minimal distinguishing history - kept as a spec mutant.*)
(*                                                                                     *)
(* Requests are abstract: [id, sem, fkey, ckey] = identity, the behaviour the           *)
(* documentation prescribes (typed), its facade-cache key class and the ==-class of the *)
(* arguments its leaf closure is created from.  "none" as sem = no provider (refused).  *)
(***************************************************************************************)
EXTENDS Naturals, Sequences, FiniteSets, TLC, Json

CONSTANTS MaxHist, KeyEq, EmitCases

Req(id, sem, fkey, ckey) == [id |-> id, sem |-> sem, fkey |-> fkey, ckey |-> ckey]
\* the pool of mutually confusable requests
Pool == {Req("Lit01", "lit01", "f_lit01", "c_01"), Req("LitFT", "litFT", "f_litFT", "c_01"),
         Req("Lit1a", "lit1a", "f_lit1a", "c_1a"), Req("LitTa", "litTa", "f_litTa", "c_1a"),
         Req("List_int", "list_int", "f_List_int", "c_list_int"), Req("list_int", "list_int", "f_list_int", "c_list_int"),
         Req("Seq_int", "tuple_int", "f_Seq_int", "c_seq_int"),
         Req("U_int_str", "u_is", "f_u_is", "c_u_is"), Req("U_str_int", "u_is", "f_u_is", "c_u_is"),
         Req("ModelA", "modelA", "f_modelA", "c_modelA"), Req("ModelB", "modelB", "f_modelB", "c_modelB"),
         Req("NT1", "int", "f_NT1", "c_int"), Req("NT2", "int", "f_NT2", "c_int"), Req("int", "int", "f_int", "c_int"),
         Req("Ann0", "int", "f_Ann0", "c_int"), Req("AnnF", "int", "f_AnnF", "c_int"),
         Req("NoProvider", "none", "f_nop", "c_nop"), Req("Rec", "rec", "f_rec", "c_rec"),
         \* one union type dumped with objects of two runtime classes (class dispatch), one model pair converted with and without recipe
         Req("DumpPet", "dump_pet", "f_u_animal_p", "c_u_animal_p"), Req("DumpPetDog", "dump_petdog", "f_u_animal_pd", "c_u_animal_pd"),
         Req("ConvPlain", "conv_plain", "f_conv_plain", "c_conv_plain"), Req("ConvRecipe", "conv_recipe", "f_conv_recipe", "c_conv_recipe"),
         \* the same through the other entry point, retort.convert(obj, Dst[, recipe=...]) (the plain form shares the cache entry of get_converter)
         Req("ConvertPlain", "conv_plain", "f_conv_plain", "c_conv_plain"), Req("ConvertRecipe", "conv_recipe", "f_convert_recipe", "c_conv_recipe")}
\* retort constructions: the base retort, base.replace(strict_coercion=False), base.extend(recipe=[loader(int, ..)])
Retorts == {"base", "replaced", "extended"}
\* the behaviour a construction prescribes for a request (history-free by definition)
Resp(rt, r) == IF r.sem = "none" THEN "refused"
               ELSE IF rt = "extended" /\ r.sem = "int" THEN "custom_int"
               ELSE IF rt = "replaced" THEN <<"lax", r.sem>> ELSE <<"strict", r.sem>>
RespStr(rt, r) == IF r.sem = "none" THEN "refused"
                  ELSE IF rt = "extended" /\ r.sem = "int" THEN "custom_int"
                  ELSE IF rt = "replaced" THEN "lax" ELSE "strict"

CKey(r) == IF KeyEq = "typed" THEN r.sem ELSE r.ckey       \* which requests share a call-cache entry

VARIABLES facade,   \* [retort -> set of fkeys already served]  with the closure they got: function retort -> (fkey :> closure sem)
          calls,    \* [retort -> (ckey :> closure sem)]  the call cache
          hist,     \* ghost: the calls so far
          last      \* response of the last call: [rt, r, got]
vars == <<facade, calls, hist, last>>

Empty == [x \in {} |-> "-"]
Init == /\ facade = [rt \in Retorts |-> Empty] /\ calls = [rt \in Retorts |-> Empty]
        /\ hist = <<>> /\ last = [rt |-> "-", r |-> "-", got |-> "-", want |-> "-"]

\* one facade call get_loader(r) / load(.., r) on retort rt
Call(rt, r) ==
  /\ Len(hist) < MaxHist
  /\ hist' = Append(hist, [rt |-> rt, r |-> r.id])
  /\ IF r.sem = "none"
     THEN /\ UNCHANGED <<facade, calls>>                                         \* a failed request stores nothing
          /\ last' = [rt |-> rt, r |-> r.id, got |-> "none", want |-> "none"]
     ELSE IF r.fkey \in DOMAIN facade[rt]
     THEN /\ UNCHANGED <<facade, calls>>                                         \* facade cache hit
          /\ last' = [rt |-> rt, r |-> r.id, got |-> facade[rt][r.fkey], want |-> r.sem]
     ELSE LET closure == IF CKey(r) \in DOMAIN calls[rt] THEN calls[rt][CKey(r)] ELSE r.sem IN   \* cached_call: reuse or create
          /\ calls' = [calls EXCEPT ![rt] = (CKey(r) :> closure) @@ @]
          /\ facade' = [facade EXCEPT ![rt] = (r.fkey :> closure) @@ @]
          /\ last' = [rt |-> rt, r |-> r.id, got |-> closure, want |-> r.sem]
Next == \E rt \in Retorts, r \in Pool : Call(rt, r)

(* ------------------------------ properties ------------------------------------------------ *)
\* the refinement: what a call returns is what the construction alone prescribes
HistoryFree == last.got = last.want
\* replace()/extend() give retorts with caches of their own
RetortsIndependent == \A a, b \in Retorts : a # b => TRUE
\* the facade cache never maps two behaviourally different requests to one entry
FacadeKeysTyped == \A a, b \in Pool : a.fkey = b.fkey => a.sem = b.sem

CaseRecord == [hist |-> hist]
EmitCase == (EmitCases /\ Len(hist) = MaxHist) => PrintT(ToJson(CaseRecord))
=======================================================================================
