------------------------------------ MODULE PyTypes ------------------------------------
(***************************************************************************************)
(* Type hints AS WRITTEN and what they denote (property C15).                          *)
(*   hint    [k |-> kind, a |-> <<argument hints>>, v |-> <<literal members (typed tokens)>>]   *)
(*   kinds   int str bool bytes None Any                                               *)
(*           list / List, dict / Dict, tuple / Tuple (builtin generic / typing alias)  *)
(*           union (typing.Union as written: order, nesting, duplicates kept)          *)
(*           bar (X | Y)      optional (Optional[X])                                   *)
(*           literal          type (Type[X])                                           *)
(*           G GB GC          a user generic used bare; its TypeVar is unconstrained,  *)
(*                            bound to int, constrained to (str, bytes)                *)
(*           Gp GBp GCp       the same generic with an explicit argument               *)
(* Denote(h) is the meaning: a union is the SET of its members' meanings with nested   *)
(* unions flattened and all literal members merged into one typed literal; a singleton *)
(* union is its member; Literal[None] is None; an alias is the builtin generic; a bare *)
(* generic is the generic applied to the documented implicit parameter.                *)
(* The machine rewrites a hint step by step; meaning-preserving rewrites must keep the *)
(* denotation, meaning-changing edits must change it.                                  *)
(***************************************************************************************)
EXTENDS Naturals, Sequences, FiniteSets, TLC, Json

CONSTANTS MaxRewrites, EmitCases

H(k, a, v) == [k |-> k, a |-> a, v |-> v]
Leaf(k) == H(k, <<>>, <<>>)
Lit(v) == H("literal", <<>>, v)
Un(a) == H("union", a, <<>>)

AliasOf(k) == CASE k = "List" -> "list" [] k = "Dict" -> "dict" [] k = "Tuple" -> "tuple" [] OTHER -> k
UnionKinds == {"union", "bar", "optional"}
BareKinds == {"G", "GB", "GC"}
\* documented implicit parameters: T = TypeVar('T') -> Any; bound=Book -> Book; TypeVar('C', str, bytes) -> Union[str, bytes]
Implicit(k) == CASE k = "G" -> Leaf("Any") [] k = "GB" -> Leaf("int") [] k = "GC" -> Un(<<Leaf("str"), Leaf("bytes")>>)
Param(k) == CASE k = "G" -> "Gp" [] k = "GB" -> "GBp" [] k = "GC" -> "GCp"

(* ------------------------------ denotation ------------------------------------------- *)
NoneD == [o |-> "None", a |-> <<>>, m |-> {}, vs |-> {}]
LitD(S) == [o |-> "lit", a |-> <<>>, m |-> {}, vs |-> S]
UnionD(M) == [o |-> "union", a |-> <<>>, m |-> M, vs |-> {}]
Members(d) == IF d.o = "union" THEN d.m ELSE {d}
\* merge the literal members, Literal[None] counts as None, a singleton union is its member
Collapse(M) ==
  LET lits == {d \in M : d.o = "lit"}
      vals == UNION {d.vs : d \in lits}
      hasNone == "none" \in vals \/ NoneD \in M
      rest == (M \ lits) \ {NoneD}
      litPart == IF vals \ {"none"} = {} THEN {} ELSE {LitD(vals \ {"none"})}
      all == rest \cup litPart \cup (IF hasNone THEN {NoneD} ELSE {})
  IN  IF Cardinality(all) = 1 THEN CHOOSE d \in all : TRUE ELSE UnionD(all)

RECURSIVE Denote(_)
Denote(h) ==
  CASE h.k \in UnionKinds ->
         Collapse(UNION {Members(Denote(h.a[i])) : i \in 1..Len(h.a)} \cup (IF h.k = "optional" THEN {NoneD} ELSE {}))
    [] h.k = "literal" -> Collapse({LitD({h.v[i] : i \in 1..Len(h.v)})})
    [] h.k = "None" -> NoneD
    [] h.k \in BareKinds -> [o |-> Param(h.k), a |-> <<Denote(Implicit(h.k))>>, m |-> {}, vs |-> {}]
    [] OTHER -> [o |-> AliasOf(h.k), a |-> [i \in 1..Len(h.a) |-> Denote(h.a[i])], m |-> {}, vs |-> {}]

(* ------------------------------ positions and rewriting ------------------------------ *)
RECURSIVE Positions(_), At(_, _), Put(_, _, _)
Positions(h) == {<<>>} \cup UNION {{<<i>> \o p : p \in Positions(h.a[i])} : i \in 1..Len(h.a)}
At(h, p) == IF p = <<>> THEN h ELSE At(h.a[p[1]], Tail(p))
Put(h, p, x) == IF p = <<>> THEN x ELSE [h EXCEPT !.a[p[1]] = Put(@, Tail(p), x)]

Rev(s) == [i \in 1..Len(s) |-> s[Len(s) + 1 - i]]
LitIn(t) == t.k = "literal"
\* (rule name, is it meaning-preserving, the rewritten sub-hint) for every rule applicable to the sub-hint t
Rewrites(t) ==
  (IF t.k \in {"union", "bar"} /\ Len(t.a) >= 2 THEN
      {<<"SwapUnionArgs", TRUE, [t EXCEPT !.a = Rev(t.a)]>>,
       <<"DupUnionArg", TRUE, [t EXCEPT !.a = Append(t.a, t.a[1])]>>,
       <<"NestUnion", TRUE, [t EXCEPT !.a = <<t.a[1], Un(Tail(t.a))>>]>>,
       <<"BarSyntax", TRUE, [t EXCEPT !.k = IF t.k = "union" THEN "bar" ELSE "union"]>>,
       <<"DropArg", FALSE, IF Len(t.a) = 2 THEN t.a[1] ELSE [t EXCEPT !.a = SubSeq(t.a, 1, Len(t.a) - 1)]>>}
   ELSE {})
  \cup (IF t.k = "union" /\ Len(t.a) = 2 /\ t.a[2] = Leaf("None") THEN {<<"UnionToOptional", TRUE, H("optional", <<t.a[1]>>, <<>>)>>} ELSE {})
  \cup (IF t.k = "optional" THEN {<<"OptionalToUnion", TRUE, Un(<<t.a[1], Leaf("None")>>)>>} ELSE {})
  \cup (IF t.k \in {"list", "dict", "tuple"} THEN {<<"BuiltinToAlias", TRUE, [t EXCEPT !.k = CASE t.k = "list" -> "List" [] t.k = "dict" -> "Dict" [] t.k = "tuple" -> "Tuple"]>>} ELSE {})
  \cup (IF t.k \in {"List", "Dict", "Tuple"} THEN {<<"AliasToBuiltin", TRUE, [t EXCEPT !.k = AliasOf(t.k)]>>} ELSE {})
  \cup (IF t.k \in BareKinds THEN {<<"BareToImplicit", TRUE, H(Param(t.k), <<Implicit(t.k)>>, <<>>)>>} ELSE {})
  \cup (IF LitIn(t) /\ Len(t.v) >= 2 THEN {<<"SplitLiteral", TRUE, Un(<<Lit(<<t.v[1]>>), Lit(Tail(t.v))>>)>>,
                                            <<"SwapLiteralArgs", TRUE, Lit(Rev(t.v))>>,
                                            <<"DropLiteralValue", FALSE, Lit(Tail(t.v))>>} ELSE {})
  \cup (IF t.k = "union" /\ Len(t.a) = 2 /\ LitIn(t.a[1]) /\ LitIn(t.a[2]) THEN {<<"MergeLiterals", TRUE, Lit(t.a[1].v \o t.a[2].v)>>} ELSE {})
  \cup (IF t = Lit(<<"none">>) THEN {<<"LiteralNoneToNone", TRUE, Leaf("None")>>} ELSE {})
  \cup (IF t = Leaf("None") THEN {<<"NoneToLiteralNone", TRUE, Lit(<<"none">>)>>} ELSE {})
  \* meaning-changing: a literal member replaced by its ==-equal look-alike of another type
  \cup (IF LitIn(t) /\ \E i \in 1..Len(t.v) : t.v[i] \in {"i0", "i1", "bF", "bT"} THEN
          {<<"RetypeLiteral", FALSE, Lit([i \in 1..Len(t.v) |-> CASE t.v[i] = "i0" -> "bF" [] t.v[i] = "bF" -> "i0" [] t.v[i] = "i1" -> "bT" [] t.v[i] = "bT" -> "i1" [] OTHER -> t.v[i]])>>}
        ELSE {})
  \cup (IF t = Leaf("int") THEN {<<"ChangeArg", FALSE, Leaf("str")>>} ELSE {})
  \cup (IF t.k \in {"union", "bar"} THEN {<<"AddCase", FALSE, [t EXCEPT !.a = Append(t.a, Leaf("bytes"))]>>} ELSE {})
  \cup (IF t.k \in {"Gp", "GBp", "GCp"} /\ t.a[1] # Leaf("bool") THEN {<<"ChangeGenericArg", FALSE, [t EXCEPT !.a = <<Leaf("bool")>>]>>} ELSE {})

(* ------------------------------ the machine ------------------------------------------ *)
Seeds == {Un(<<Leaf("int"), Leaf("str")>>), Un(<<Leaf("int"), Leaf("None")>>), Un(<<Leaf("int"), Leaf("str"), Leaf("None")>>),
          H("optional", <<Leaf("str")>>, <<>>), H("list", <<Leaf("int")>>, <<>>), H("dict", <<Leaf("str"), Un(<<Leaf("int"), Leaf("None")>>)>>, <<>>),
          Lit(<<"i0", "i1">>), Lit(<<"bF", "bT">>), Lit(<<"i0", "bF">>), Lit(<<"s_a", "i1", "none">>), Lit(<<"none">>),
          Un(<<Lit(<<"i0">>), Lit(<<"bF">>)>>), Un(<<Lit(<<"s_a">>), Leaf("int"), Lit(<<"s_b">>)>>), Un(<<Lit(<<"i1">>), Leaf("None")>>),
          H("list", <<Un(<<Leaf("int"), Leaf("str")>>)>>, <<>>), H("tuple", <<Leaf("int"), Lit(<<"i1", "bT">>)>>, <<>>),
          H("type", <<Un(<<Leaf("int"), Leaf("str")>>)>>, <<>>), Leaf("G"), Leaf("GB"), Leaf("GC"), H("list", <<Leaf("GC")>>, <<>>),
          Un(<<H("list", <<Leaf("int")>>, <<>>), H("list", <<Leaf("str")>>, <<>>)>>), H("optional", <<Lit(<<"s_a", "s_b">>)>>, <<>>),
          \* members that differ only in a nested Literal whose values have the same text ("1" and 1)
          Un(<<H("list", <<Lit(<<"s_1">>)>>, <<>>), H("list", <<Lit(<<"i1">>)>>, <<>>)>>),
          Un(<<H("dict", <<Leaf("str"), Lit(<<"i1">>)>>, <<>>), H("dict", <<Leaf("str"), Lit(<<"s_1">>)>>, <<>>), Leaf("None")>>),
          Un(<<Lit(<<"none", "s_a">>), Lit(<<"s_b">>)>>), Un(<<H("dict", <<Leaf("str"), Leaf("int")>>, <<>>), H("dict", <<Leaf("str"), Leaf("str")>>, <<>>)>>),
          \* distinct classes / enum members that print alike (two classes of one name): the canonical order may not depend on the spelling
          Un(<<Leaf("X1"), Leaf("X2")>>), Un(<<H("list", <<Leaf("X1")>>, <<>>), H("list", <<Leaf("X2")>>, <<>>), Leaf("None")>>), Lit(<<"ex1", "ex2">>),
          \* members of one origin that share a generic leading argument (which can be respelled on one side only) and differ behind it
          Un(<<H("tuple", <<H("list", <<Leaf("int")>>, <<>>), Leaf("int")>>, <<>>), H("tuple", <<H("list", <<Leaf("int")>>, <<>>), Leaf("str")>>, <<>>)>>),
          Un(<<H("dict", <<H("optional", <<Leaf("int")>>, <<>>), Leaf("str")>>, <<>>), H("dict", <<H("optional", <<Leaf("int")>>, <<>>), Leaf("bytes")>>, <<>>)>>)}

VARIABLES h, prev, rule, keeps, n, root, allkeeps
vars == <<h, prev, rule, keeps, n, root, allkeeps>>
Init == /\ h \in Seeds /\ prev = h /\ rule = "seed" /\ keeps = TRUE /\ n = 0 /\ root = h /\ allkeeps = TRUE
Rewrite == /\ n < MaxRewrites
           /\ \E p \in Positions(h) : \E rw \in Rewrites(At(h, p)) :
                 /\ h' = Put(h, p, rw[3])
                 \* an edit counts as meaning-changing only where it really changes the denotation (dropping a duplicate does not)
                 /\ (rw[2] \/ Denote(Put(h, p, rw[3])) # Denote(h))
                 /\ rule' = rw[1]
                 /\ keeps' = rw[2]
                 /\ allkeeps' = (allkeeps /\ rw[2])
           /\ prev' = h
           /\ n' = n + 1
           /\ root' = root
Next == Rewrite

(* ------------------------------ properties (C15) --------------------------------------- *)
PreservingKeepsMeaning == /\ (rule # "seed" /\ keeps) => Denote(h) = Denote(prev)
                          /\ allkeeps => Denote(h) = Denote(root)       \* a whole sequence of preserving rewrites
ChangingChangesMeaning == (rule # "seed" /\ ~keeps) => Denote(h) # Denote(prev)
\* the denotation never contains a union inside a union, a singleton union, or two literal members
RECURSIVE Canonical(_)
Canonical(d) == /\ d.o = "union" => /\ Cardinality(d.m) >= 2
                                    /\ \A x \in d.m : x.o # "union" /\ Canonical(x)
                                    /\ Cardinality({x \in d.m : x.o = "lit"}) <= 1
                /\ \A i \in 1..Len(d.a) : Canonical(d.a[i])
DenotationCanonical == Canonical(Denote(h))

CaseRecord == [prev |-> prev, h |-> h, rule |-> rule, keeps |-> keeps, root |-> root, allkeeps |-> allkeeps]
EmitCase == EmitCases => PrintT(ToJson(CaseRecord))
=======================================================================================
