----------------------------------- MODULE MC_Convert -----------------------------------
(***************************************************************************************)
(* C14: all ordered pairs of a type pool, placed directly / inside Optional / inside a  *)
(* list / as a dict value, as the type of one field of a source and a destination      *)
(* model.  TLC checks that the documented relation is reflexive and that its as-is     *)
(* rules are type-sound, and emits the creation verdict for every pair.                *)
(***************************************************************************************)
EXTENDS Convert

CONSTANTS EmitCases, Rich

LI == T("list", <<Sc("int")>>, <<>>)
LS == T("list", <<Sc("str")>>, <<>>)
Pool == {Sc("int"), Sc("str"), Sc("bool"), Sc("float"), Sc("Any"), Sc("None"), Sc("A"), Sc("B"),
         LI, LS, T("set", <<Sc("int")>>, <<>>), T("tuple_var", <<Sc("bool")>>, <<>>), T("Sequence", <<Sc("int")>>, <<>>),
         Opt(Sc("int")), Opt(Sc("str")), Opt(LI), Opt(LS), Opt(Sc("bool")),
         Un(<<Sc("int"), Sc("str")>>), Un(<<Sc("str"), Sc("int")>>), Un(<<Sc("int"), Sc("str"), Sc("None")>>),
         Lit(<<"la">>), Lit(<<"lb">>), Lit(<<"la", "lb">>), Un(<<Lit(<<"lb">>), Sc("int")>>),
         T("dict", <<Sc("str"), Sc("int")>>, <<>>), T("dict", <<Sc("str"), Sc("bool")>>, <<>>), T("Mapping", <<Sc("str"), Sc("Any")>>, <<>>),
         Model("m1"), Model("m2"), Model("m3"), Opt(Model("m2")), T("list", <<Model("m2")>>, <<>>), T("list", <<Model("m1")>>, <<>>),
         \* constant-length tuples are not iterables of the coercion rules: only the as-is rules apply to them
         T("tuple0", <<>>, <<>>), T("tuple1", <<Sc("int")>>, <<>>), T("tuple2", <<Sc("int"), Sc("str")>>, <<>>)}
        \cup (IF Rich THEN {T("newtype", <<>>, <<"NT">>), Sc("G_int"), Sc("G_str"), Sc("bytes"), T("frozenset", <<Sc("str")>>, <<>>),
                            T("deque", <<Sc("int")>>, <<>>), T("Iterable", <<Sc("A")>>, <<>>), T("list", <<Sc("B")>>, <<>>), Opt(Sc("A")),
                            Un(<<Sc("A"), Sc("int")>>), Un(<<LI, Sc("None"), Sc("str")>>), Opt(Opt(Sc("int")))} ELSE {})
\* m1: {a: int, b: str}   m2: {a: int}   m3: {a: str, c: int = 0}
F(n, t, r) == [n |-> n, t |-> t, req |-> r]
ModelTable == [m1 |-> <<F("a", Sc("int"), TRUE), F("b", Sc("str"), TRUE)>>,
               m2 |-> <<F("a", Sc("int"), TRUE)>>,
               m3 |-> <<F("a", Sc("str"), TRUE), F("c", Sc("int"), FALSE)>>]

Wrap(ctx, t) == CASE ctx = "direct" -> t [] ctx = "optional" -> Opt(t) [] ctx = "list" -> T("list", <<t>>, <<>>)
                  [] ctx = "dictval" -> T("dict", <<Sc("str"), t>>, <<>>)
                  [] ctx = "dictkey" -> T("dict", <<t, Sc("int")>>, <<>>)           \* keys are coerced like values
Contexts == {"direct", "optional", "list", "dictval", "dictkey"}
\* types whose values can be keys
KeyPool == {Sc("int"), Sc("str"), Sc("bool"), Sc("A"), Sc("B"), Model("m1"), Model("m2"), Model("m3"), Lit(<<"la">>), Lit(<<"la", "lb">>),
            T("tuple0", <<>>, <<>>), T("tuple1", <<Sc("int")>>, <<>>), Un(<<Sc("int"), Sc("str")>>), Opt(Sc("int"))}

VARIABLES st, s, d, ctx
Init == st = "root" /\ s = Sc("int") /\ d = Sc("int") /\ ctx = "direct"
PickSrc == /\ st = "root" /\ \E x \in Pool : s' = x
           /\ st' = "src" /\ UNCHANGED <<d, ctx>>
PickDst == /\ st = "src" /\ \E x \in Pool, c \in Contexts : (c = "dictkey" => (x \in KeyPool /\ s \in KeyPool)) /\ d' = x /\ ctx' = c
           /\ st' = "case" /\ s' = s
Next == PickSrc \/ PickDst

Reflexive == st = "src" => Coercible(s, s)
AsIsRulesSound == st = "case" => AsIsSound(s, d)
\* coercibility is preserved by the compound rules
ContextMonotone == (st = "case" /\ ctx # "direct" /\ Coercible(s, d)) => Coercible(Wrap(ctx, s), Wrap(ctx, d))
CaseRecord == [s |-> s, d |-> d, ctx |-> ctx, coercible |-> Coercible(Wrap(ctx, s), Wrap(ctx, d)), asis |-> AsIs(Wrap(ctx, s), Wrap(ctx, d))]
EmitCase == (st = "case" /\ EmitCases) => PrintT(ToJson(CaseRecord))
=======================================================================================
