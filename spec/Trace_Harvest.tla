--------------------------------- MODULE Trace_Harvest ---------------------------------
(***************************************************************************************)
(* Total monitor for the calls harvested from the repository's own test-suite          *)
(* (code -> spec; vf/harvest_plugin.py).  One ndjson line per loader / dumper call a    *)
(* test made, together with the variations the properties quantify over:               *)
(*   tags, vals : outcome ("ok" | "err") and value class (equal results share a number; *)
(*                errors are classed by exception class) of, in this order,             *)
(*                  1 the test's own call      2, 3 the same call twice more            *)
(*                  4, 5 two fresh equal retorts (retort.replace())                     *)
(*                  6, 7, 8 debug_trail = DISABLE, FIRST, ALL on fresh retorts          *)
(*                  9 strict_coercion = FALSE (only when the retort is strict)          *)
(*   arg_same   : deep snapshot of the argument unchanged by the two repeated calls     *)
(* The clauses are the harvested-call forms of C06, C07, C11 and C20.                   *)
(***************************************************************************************)
EXTENDS Naturals, Sequences, FiniteSets, TLC, Json, IOUtils

TraceLog == ndJsonDeserialize(IOEnv.TRACE_FILE)
VARIABLES l, verdict
tvars == <<l, verdict>>

Same(e, i, j) == e.tags[i] = e.tags[j] /\ (e.tags[i] = "ok" => e.vals[i] = e.vals[j])
\* user code with state, clocks, call-counting mocks: two fresh equal retorts already disagree - nothing is judged
Deterministic(e) == Same(e, 4, 5)
Clauses(e) ==
  IF ~Deterministic(e) THEN {}
  \* (the test's own call ran on the test's object, the repetitions on a copy: a copied set may iterate in another order,
  \*  so only calls on the same object are compared)
  ELSE (IF Same(e, 2, 3) THEN {} ELSE {"repeat_equal"})                                          \* C20
       \cup (IF e.arg_same THEN {} ELSE {"arg_unchanged"})                                       \* C20
       \cup (IF Same(e, 2, 4) THEN {} ELSE {"history_free"})                                     \* C11: the used retort = a fresh one
       \cup (IF e.tags[6] = e.tags[7] /\ e.tags[7] = e.tags[8] THEN {} ELSE {"modes_agree_on_acceptance"})   \* C06
       \cup (IF (e.tags[6] = "ok" /\ e.tags[7] = "ok" /\ e.tags[8] = "ok") => (e.vals[6] = e.vals[7] /\ e.vals[7] = e.vals[8])
             THEN {} ELSE {"modes_agree_on_value"})                                              \* C06
       \cup (IF e.has_lax /\ e.tags[4] = "ok" /\ e.tags[9] # "ok" THEN {"strict_narrows"} ELSE {})   \* C07
TInit == l = 1 /\ verdict = [l |-> 0, bad |-> {}, nd |-> FALSE]
TNext == /\ l <= Len(TraceLog) /\ l' = l + 1
         /\ verdict' = [l |-> l, bad |-> Clauses(TraceLog[l]), nd |-> ~Deterministic(TraceLog[l])]
Report == (verdict.bad # {} \/ verdict.nd) => PrintT(ToJson(verdict))
AllConsumed == TLCGet("stats").diameter - 1 = Len(TraceLog)
=======================================================================================
