----------------------------------- MODULE RouterNest -----------------------------------
(***************************************************************************************)
(* A retort placed in the recipe of another retort (property C09: "a retort placed in   *)
(* a recipe serves matched requests from its own recipe and options").                  *)
(*                                                                                     *)
(* The outer recipe is   pre \o << bound(w, Inner) >> \o post   where Inner is a retort  *)
(* whose full recipe is `inner` (the first `cut` providers given to the constructor,    *)
(* the rest declared at class level - the split must be invisible).  Leaf providers     *)
(* get global ids in recipe order: pre 1..a, inner a+1..a+b, post a+b+1..a+b+c.          *)
(*                                                                                     *)
(* What the code does (retort/searching_retort.py get_request_handlers): the inner      *)
(* retort is ONE provider of the outer recipe, with an always-true checker for every    *)
(* request class its full recipe knows; its handler runs a complete search of its own   *)
(* (own mediator: provide_from_next of an inner provider stays inside the inner         *)
(* recipe); CannotProvide from that search makes the outer search go on behind it.      *)
(* Scalar options (strict_coercion, debug_trail) are requests resolved by the same       *)
(* chain (see GoverningStrict below).                                                  *)
(***************************************************************************************)
EXTENDS RouterRef, TLC, Json

CONSTANTS MaxLen, EmitCases

Wrappers == {"none", "exA", "predY", "predN"}       \* Inner placed directly / bound(pred, Inner)
NestProviders == {p \in Providers : p.c # "exC"}

VARIABLES pre, inner, post, cut, w, outerStrict, innerStrict, phase
vars == <<pre, inner, post, cut, w, outerStrict, innerStrict, phase>>

Total == Len(pre) + Len(inner) + Len(post)
Init == /\ pre = <<>> /\ inner = <<>> /\ post = <<>> /\ cut = 0 /\ w = "none" /\ phase = "pre"
        /\ outerStrict \in BOOLEAN /\ innerStrict = ~outerStrict
AddPre == /\ phase = "pre" /\ Total < MaxLen - 1
          /\ \E p \in NestProviders : pre' = Append(pre, p)
          /\ UNCHANGED <<inner, post, cut, w, outerStrict, innerStrict, phase>>
StartInner == /\ phase = "pre" /\ phase' = "inner"
              /\ \E x \in Wrappers : w' = x
              /\ UNCHANGED <<pre, inner, post, cut, outerStrict, innerStrict>>
AddInner == /\ phase = "inner" /\ Total < MaxLen
            /\ \E p \in NestProviders : inner' = Append(inner, p)
            /\ UNCHANGED <<pre, post, cut, w, outerStrict, innerStrict, phase>>
StartPost == /\ phase = "inner" /\ Len(inner) >= 1 /\ phase' = "post"
             /\ \E k \in {0, 1, Len(inner)} : cut' = k
             /\ UNCHANGED <<pre, inner, post, w, outerStrict, innerStrict>>
AddPost == /\ phase = "post" /\ Total < MaxLen
           /\ \E p \in NestProviders : post' = Append(post, p)
           /\ UNCHANGED <<pre, inner, cut, w, outerStrict, innerStrict, phase>>
Done == /\ phase = "post" /\ phase' = "done"
        /\ UNCHANGED <<pre, inner, post, cut, w, outerStrict, innerStrict>>
Next == AddPre \/ StartInner \/ AddInner \/ StartPost \/ AddPost \/ Done

(* ------------------------------ reference semantics --------------------------------- *)
Shift(r, b) == [ok |-> r.ok, term |-> [k \in 1..Len(r.term) |-> r.term[k] + b], log |-> [k \in 1..Len(r.log) |-> r.log[k] + b], ab |-> r.ab]
A == Len(pre)
B == Len(inner)
PostR  == Shift(Ref(post, 1), A + B)
InnerR == Shift(Ref(inner, 1), A)            \* a complete, isolated search of the inner recipe
WrapperMatches == w = "none" \/ Matches([c |-> w, h |-> "plain"])
\* a terminal refusal inside the inner retort leaves it as a terminal refusal: the outer search stops as well
RetortAt == IF ~WrapperMatches THEN PostR
            ELSE IF InnerR.ok \/ InnerR.ab THEN InnerR
            ELSE [PostR EXCEPT !.log = InnerR.log \o @]
RECURSIVE RefPre(_)
RefPre(from) ==
  IF from > Len(pre) THEN RetortAt
  ELSE LET p == pre[from] IN
       IF ~Matches(p) THEN RefPre(from + 1)
       ELSE IF p.h = "plain" THEN [ok |-> TRUE, term |-> <<from>>, log |-> <<from>>, ab |-> FALSE]
       ELSE IF p.h = "abort" THEN [ok |-> FALSE, term |-> <<>>, log |-> <<from>>, ab |-> TRUE]
       ELSE LET n == RefPre(from + 1) IN
            IF p.h = "decline" THEN [n EXCEPT !.log = <<from>> \o @]
            ELSE IF n.ok THEN [ok |-> TRUE, term |-> Compose(p.h, from, n.term), log |-> <<from>> \o n.log, ab |-> FALSE]
                 ELSE IF n.ab THEN [ok |-> FALSE, term |-> <<>>, log |-> <<from>> \o n.log, ab |-> TRUE]
                 ELSE [ok |-> FALSE, term |-> <<>>, log |-> (<<from>> \o n.log) \o n.log, ab |-> FALSE]
RefNest == RefPre(1)

\* which retort's options govern the loader that serves the request?  Options are requests like any other
\* (StrictCoercionRequest, DebugTrailRequest with the asking location): the option providers of a retort are the tail of its
\* own recipe, and the inner retort - one provider of the outer recipe, in front of the outer tail - knows these request
\* classes too.  So a provider consulted by the inner search gets the inner options (own mediator), and a provider of the
\* OUTER recipe gets them as well whenever the wrapper predicate matches the asking location: first match in recipe order.
ServedByInner == RefNest.ok /\ LET s == RefNest.log[Len(RefNest.log)] IN s > A /\ s <= A + B
GoverningStrict == IF WrapperMatches THEN innerStrict ELSE outerStrict
ServedByInnerGetsInnerOptions == (phase = "done" /\ ServedByInner) => GoverningStrict = innerStrict

(* ------------------------------ model-level properties ------------------------------ *)
Flat == (pre \o inner) \o post
InnerChains == \E k \in 1..Len(inner) : inner[k].h \in {"first", "last", "deleg"}
\* (a terminal refusal is not confined to the inner retort, so it flattens as well)
\* a nested retort whose providers do not chain is indistinguishable from its recipe spliced in place
FlatWhenNoInnerChain == (phase = "done" /\ w = "none" /\ ~InnerChains) =>
                           LET f == Ref(Flat, 1) IN f.ok = RefNest.ok /\ f.term = RefNest.term /\ f.log = RefNest.log
\* the inner search is isolated: a chain that starts inside the inner retort never composes with a provider outside
InnerIsolated == (phase = "done" /\ ServedByInner) =>
                    \A k \in 1..Len(RefNest.term) : (RefNest.term[k] > A + B) = FALSE
\* "providers after it are consulted only if it declines or explicitly delegates to the next, and no provider is consulted twice":
\* a provider whose delegation failed first delegates and then declines, so the providers behind it are legitimately reached both
\* ways; in every other request no provider is consulted twice.  (In a flat recipe a failed delegation implies that the whole
\* request fails - Router.tla states the clause as NoTwiceOnSuccess; with a nested retort the request can still be served.)
Chains(p) == p.h \in {"first", "last", "deleg"}
LogSet(r) == {r.log[k] : k \in 1..Len(r.log)}
InnerFailedDelegation == WrapperMatches /\ \E i \in 1..Len(inner) : (i + A) \in LogSet(RefNest) /\ Chains(inner[i]) /\ ~Ref(inner, i + 1).ok
PreFailedDelegation == \E i \in 1..Len(pre) : i \in LogSet(RefNest) /\ Chains(pre[i]) /\ ~RefPre(i + 1).ok
PostFailedDelegation == \E i \in 1..Len(post) : (i + A + B) \in LogSet(RefNest) /\ Chains(post[i]) /\ ~Ref(post, i + 1).ok
NoTwice == (phase = "done" /\ ~InnerFailedDelegation /\ ~PreFailedDelegation /\ ~PostFailedDelegation) =>
              \A a, b \in 1..Len(RefNest.log) : a # b => RefNest.log[a] # RefNest.log[b]
\* witness that the nested case differs from the flat one (expected to be violated: a served request with a repeated consult)
NoTwiceOnSuccess == (phase = "done" /\ RefNest.ok) => \A a, b \in 1..Len(RefNest.log) : a # b => RefNest.log[a] # RefNest.log[b]
\* the instance / class split of the inner recipe is not part of the semantics (cut does not occur in RefNest): stated by construction

CaseRecord == [pre |-> pre, inner |-> inner, post |-> post, cut |-> cut, w |-> w, outer_strict |-> outerStrict, inner_strict |-> innerStrict,
               ok |-> RefNest.ok, term |-> RefNest.term, log |-> RefNest.log, by_inner |-> ServedByInner, strict |-> GoverningStrict]
EmitCase == (phase = "done" /\ EmitCases) => PrintT(ToJson(CaseRecord))
=======================================================================================
