------------------------------------- MODULE Dump -------------------------------------
(***************************************************************************************)
(* The documented outer form of a value (C02, dump side) and the round trip            *)
(* load(dump(x, T), T) = x (C01), on the same type / token universe as Load.tla.       *)
(*   DumpVal(T, v)  the outer form, as a term: like data, plus                         *)
(*                  [c |-> "dump", f |-> kind, a |-> token] = the documented outer     *)
(*                  form of a scalar (str(Decimal), base64 text, isoformat, ...),      *)
(*                  evaluated by gamma with the reference functions of vf/univ.py      *)
(*   AsDatum(t)     the same outer form inside the token universe (via DumpTok), so    *)
(*                  that it can be fed to Load!Acc                                     *)
(*   Norm(r)        a load result as a value (constructor terms resolved via CtorTok)  *)
(***************************************************************************************)
EXTENDS Load

AsIsKinds == {"int", "float", "str", "bool", "None", "Any", "object", "LiteralString"}          \* "no conversion"

ScalarDump(k, v) == IF k \in AsIsKinds THEN v ELSE [c |-> "dump", f |-> k, a |-> v.a]

\* runtime class of a value and its MRO inside the universe
ClassOf(v) == IF IsAtom(v) THEN PyTypeOf[v.a] ELSE v.c
Mro(cls) == CASE cls = "bool" -> <<"bool", "int">>
              [] cls = "defaultdict" -> <<"defaultdict", "dict">>
              [] cls = "PosixPath" -> <<"PosixPath", "Path">>
              [] OTHER -> <<cls>>
\* class a union case is registered under ("dumper finds appropriate dumper using object type")
RECURSIVE CaseClass(_)
CaseClass(T) == CASE T.k \in {"newtype", "annotated"} -> CaseClass(T.a[1])
                  [] T.k = "None" -> "NoneType"
                  [] T.k = "Path" -> "Path"
                  [] T.k \in ScalarKinds \ {"Any", "object"} -> ValuePyType[T.k]
                  [] T.k \in IterKinds -> IterImpl(T.k)
                  [] T.k \in DictKinds -> DictImpl(T.k)
                  [] T.k = "tuple_fix" -> "tuple"
                  [] OTHER -> "?"
\* index of the union case that dumps v: a Literal case that lists the value, else by class, nearest ancestor first
Dispatch(T, v) ==
  LET lits == {i \in 1..Len(T.a) : T.a[i].k = "literal" /\ IsAtom(v) /\ \E j \in 1..Len(T.a[i].v) : TypedEq(T.a[i].v[j], v.a)}
      byCls(c) == {i \in 1..Len(T.a) : CaseClass(T.a[i]) = c}
      m == Mro(ClassOf(v))
      hits == {n \in 1..Len(m) : byCls(m[n]) # {}}
  IN  IF lits # {} THEN CHOOSE i \in lits : TRUE
      ELSE IF hits = {} THEN 0
      ELSE LET n == CHOOSE x \in hits : \A y \in hits : x <= y IN CHOOSE i \in byCls(m[n]) : TRUE

RECURSIVE DumpVal(_, _)
DumpVal(T, v) ==
  CASE T.k \in ScalarKinds -> ScalarDump(T.k, v)
    [] T.k \in IterKinds ->        \* "Dumper produces the tuple (or list for list children) with dumped elements"
         [c |-> IF T.k = "list" THEN "list" ELSE "tuple", xs |-> [i \in 1..Len(v.xs) |-> DumpVal(T.a[1], v.xs[i])]]
    [] T.k \in DictKinds ->        \* "Dumper also constructs dict with converted keys and values"
         [c |-> "dict", ks |-> [i \in 1..Len(v.ks) |-> DumpVal(T.a[1], v.ks[i])],
                        vs |-> [i \in 1..Len(v.vs) |-> DumpVal(T.a[2], v.vs[i])]]
    [] T.k = "tuple_fix" -> [c |-> "tuple", xs |-> [i \in 1..Len(v.xs) |-> DumpVal(T.a[i], v.xs[i])]]
    [] T.k = "union" -> LET i == Dispatch(T, v) IN IF i = 0 THEN [c |-> "nodumper", a |-> "x"] ELSE DumpVal(T.a[i], v)
    \* "Dumper will return value without any processing excluding Enum instances, they will be processed via the corresponding
    \*  dumper.  bytes instances also will be processed via the corresponding dumper."
    [] T.k = "literal" -> IF IsAtom(v) /\ v.a \in DOMAIN EnumValueTok THEN Atom(EnumValueTok[v.a])
                          ELSE IF IsAtom(v) /\ PyTypeOf[v.a] = "bytes" THEN ScalarDump("bytes", v)
                          ELSE v
    [] T.k \in {"newtype", "annotated"} -> DumpVal(T.a[1], v)

\* the outer form as a datum of the token universe; Defined(..) = FALSE when some scalar form is not a token
RECURSIVE AsDatum(_), Defined(_)
Defined(t) == CASE t.c = "atom" -> TRUE
                [] t.c = "dump" -> (t.a \in DOMAIN DumpTok[t.f] /\ DumpTok[t.f][t.a] # "?")
                [] t.c = "nodumper" -> FALSE
                [] t.c \in MapKinds -> \A i \in 1..Len(t.ks) : Defined(t.ks[i]) /\ Defined(t.vs[i])
                [] OTHER -> \A i \in 1..Len(t.xs) : Defined(t.xs[i])
AsDatum(t) == CASE t.c = "atom" -> t
                [] t.c = "dump" -> Atom(DumpTok[t.f][t.a])
                [] t.c \in MapKinds -> [c |-> t.c, ks |-> [i \in 1..Len(t.ks) |-> AsDatum(t.ks[i])],
                                                  vs |-> [i \in 1..Len(t.vs) |-> AsDatum(t.vs[i])]]
                [] OTHER -> [c |-> t.c, xs |-> [i \in 1..Len(t.xs) |-> AsDatum(t.xs[i])]]

\* what json.dumps / json.loads does to an outer form; applicable only to JSON-representable forms with str keys
JsonAtoms == {"int", "float", "str", "bool", "NoneType"}
RECURSIVE JsonSafe(_), JsonTravel(_)
JsonSafe(d) == CASE d.c = "atom" -> PyTypeOf[d.a] \in JsonAtoms
                 [] d.c = "dict" -> \A i \in 1..Len(d.ks) : IsAtom(d.ks[i]) /\ PyTypeOf[d.ks[i].a] = "str" /\ JsonSafe(d.vs[i])
                 [] d.c \in {"list", "tuple"} -> \A i \in 1..Len(d.xs) : JsonSafe(d.xs[i])
                 [] OTHER -> FALSE
JsonTravel(d) == CASE d.c = "atom" -> d
                   [] d.c = "dict" -> [d EXCEPT !.vs = [i \in 1..Len(d.vs) |-> JsonTravel(d.vs[i])]]
                   [] OTHER -> [c |-> "list", xs |-> [i \in 1..Len(d.xs) |-> JsonTravel(d.xs[i])]]

\* a load result as a value
RECURSIVE Norm(_)
Norm(r) == CASE r.c = "atom" -> r
             [] r.c = "conv" -> IF r.a \in DOMAIN CtorTok[r.f] THEN Atom(CtorTok[r.f][r.a]) ELSE r
             [] r.c \in {"dict", "defaultdict"} -> [c |-> r.c, ks |-> [i \in 1..Len(r.ks) |-> Norm(r.ks[i])],
                                                              vs |-> [i \in 1..Len(r.vs) |-> Norm(r.vs[i])]]
             [] r.c \in {"truth", "strof"} -> r
             [] OTHER -> [c |-> r.c, xs |-> [i \in 1..Len(r.xs) |-> Norm(r.xs[i])]]

\* unordered containers compare as sets of members
RECURSIVE SameValue(_, _)
SameValue(a, b) ==
  IF a.c # b.c THEN FALSE
  ELSE CASE a.c \in {"atom", "conv", "truth", "strof"} -> a = b
         [] a.c \in {"set", "frozenset"} -> /\ \A i \in 1..Len(a.xs) : \E j \in 1..Len(b.xs) : SameValue(a.xs[i], b.xs[j])
                                           /\ \A j \in 1..Len(b.xs) : \E i \in 1..Len(a.xs) : SameValue(a.xs[i], b.xs[j])
         [] a.c \in {"dict", "defaultdict"} -> /\ Len(a.ks) = Len(b.ks)
                                              /\ \A i \in 1..Len(a.ks) : \E j \in 1..Len(b.ks) :
                                                    SameValue(a.ks[i], b.ks[j]) /\ SameValue(a.vs[i], b.vs[j])
         [] OTHER -> Len(a.xs) = Len(b.xs) /\ \A i \in 1..Len(a.xs) : SameValue(a.xs[i], b.xs[i])

\* C01 premise: "unions with non-overlapping cases" -- two cases overlap under s when some probe datum is accepted by both
RECURSIVE NoOverlap(_, _, _)
NoOverlap(T, s, probes) ==
  /\ T.k = "union" => \A i, j \in 1..Len(T.a) : i < j =>
                          ~\E d \in probes : Acc(T.a[i], d, s) # {} /\ Acc(T.a[j], d, s) # {}
  /\ \A i \in 1..Len(T.a) : NoOverlap(T.a[i], s, probes)

\* C01 on the documented rules: loading the documented outer form gives back exactly the value
RoundTrip(T, v, s) ==
  LET t == DumpVal(T, v) IN
  Defined(t) => LET d == AsDatum(t)
                    rs == Acc(T, d, s)
                IN  /\ rs # {}
                    /\ \A r \in rs : SameValue(Norm(r), v)
RoundTripJson(T, v, s) ==
  LET t == DumpVal(T, v) IN
  (Defined(t) /\ JsonSafe(AsDatum(t))) =>
      LET rs == Acc(T, JsonTravel(AsDatum(t)), s)
      IN  rs # {} /\ \A r \in rs : SameValue(Norm(r), v)
=======================================================================================
