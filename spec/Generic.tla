------------------------------------- MODULE Generic -------------------------------------
(***************************************************************************************)
(* Generic models (property C16): the type used for a field is its annotation with     *)
(* every type variable replaced by the argument the parametrisation binds it to -      *)
(* through any number of inheritance levels, partial binding, re-ordering, shadowing   *)
(* by an overriding annotation - or by the documented implicit parameter (Any / the    *)
(* bound / the union of constraints) when the class is used bare.                      *)
(*                                                                                     *)
(* annotations  [k |-> "var", v |-> name] | [k |-> "int"|"str"|"bool"|"Any"]           *)
(*              | [k |-> "list", a |-> <<x>>] | [k |-> "dict", a |-> <<x, y>>]          *)
(*              | [k |-> "union", a |-> <<x, y>>]                                       *)
(* a class      [params |-> <<type variables, in Generic[...] order>>,                 *)
(*               base |-> 0 (none) | index of the parent class in the table,           *)
(*               bargs |-> <<argument annotations given to the parent (over own params)>> | <<>> (parent used bare / not generic),*)
(*               fields |-> function name -> annotation (own annotations only)]         *)
(* The class table is built by Declare actions (chains of up to 3 classes).             *)
(***************************************************************************************)
EXTENDS Naturals, Sequences, FiniteSets, TLC, Json

CONSTANTS EmitCases, Rich

A(k) == [k |-> k, v |-> "-", a |-> <<>>]
Var(n) == [k |-> "var", v |-> n, a |-> <<>>]
ListOf(x) == [k |-> "list", v |-> "-", a |-> <<x>>]
DictOf(x, y) == [k |-> "dict", v |-> "-", a |-> <<x, y>>]
UnionOf(x, y) == [k |-> "union", v |-> "-", a |-> <<x, y>>]

\* type variables: T, U unconstrained; B bound to int; C constrained to (str, bool)
\* "T = TypeVar('T') -> Any;  TypeVar('B', bound=Book) -> Book;  TypeVar('C', str, bytes) -> Union[str, bytes]"
Implicit(v) == CASE v = "B" -> A("int") [] v = "C" -> UnionOf(A("str"), A("bool")) [] OTHER -> A("Any")

RECURSIVE Subst(_, _)
\* env: function from variable names to annotations
Subst(x, env) == IF x.k = "var" THEN (IF x.v \in DOMAIN env THEN env[x.v] ELSE x)
                 ELSE [x EXCEPT !.a = [i \in 1..Len(x.a) |-> Subst(x.a[i], env)]]
RECURSIVE VarsOf(_)
VarsOf(x) == IF x.k = "var" THEN {x.v} ELSE UNION {VarsOf(x.a[i]) : i \in 1..Len(x.a)}
Closed(x) == VarsOf(x) = {}

Env(cls, args) == [i \in 1..Len(cls.params) |-> args[i]]      \* positional: helper below builds the name-keyed map
Bind(cls, args) == [n \in {cls.params[i] : i \in 1..Len(cls.params)} |-> args[CHOOSE i \in 1..Len(cls.params) : cls.params[i] = n]]
BareArgs(cls) == [i \in 1..Len(cls.params) |-> Implicit(cls.params[i])]

\* all field names visible in class number c of table tb
RECURSIVE FieldNames(_, _)
FieldNames(tb, c) == DOMAIN tb[c].fields \cup (IF tb[c].base = 0 THEN {} ELSE FieldNames(tb, tb[c].base))

\* the type of field f of class c applied to args (a sequence of annotations, closed or over an outer environment)
RECURSIVE FieldType(_, _, _, _)
FieldType(tb, c, args, f) ==
  LET cls == tb[c]
      env == Bind(cls, args)
  IN  IF f \in DOMAIN cls.fields THEN Subst(cls.fields[f], env)                 \* an own (possibly overriding) annotation wins
      ELSE LET p == tb[cls.base]
               pargs == IF cls.bargs = <<>> THEN BareArgs(p)                      \* the parent is used bare (or is not generic)
                        ELSE [i \in 1..Len(cls.bargs) |-> Subst(cls.bargs[i], env)]
           IN FieldType(tb, cls.base, pargs, f)

(* ------------------------------ the universe of class tables ------------------------------ *)
Concrete == {A("int"), A("str")} \cup (IF Rich THEN {ListOf(A("int")), A("bool")} ELSE {})
RootShapes ==
  {[params |-> <<"T">>, base |-> 0, bargs |-> <<>>, fields |-> ("x" :> Var("T") @@ "y" :> ListOf(Var("T")))],
   [params |-> <<"T", "U">>, base |-> 0, bargs |-> <<>>, fields |-> ("x" :> Var("T") @@ "y" :> DictOf(Var("U"), ListOf(Var("T"))))],
   [params |-> <<"T", "U">>, base |-> 0, bargs |-> <<>>, fields |-> ("x" :> Var("U") @@ "y" :> ListOf(Var("T")) @@ "z" :> A("int"))],
   [params |-> <<"B">>, base |-> 0, bargs |-> <<>>, fields |-> ("x" :> Var("B") @@ "y" :> ListOf(Var("B")))],
   [params |-> <<"C", "T">>, base |-> 0, bargs |-> <<>>, fields |-> ("x" :> Var("C") @@ "y" :> DictOf(Var("T"), Var("C")))],
   \* a type variable inside a union member (written Union[List[T], int] or list[T] | int by gamma)
   [params |-> <<"T">>, base |-> 0, bargs |-> <<>>, fields |-> ("x" :> UnionOf(ListOf(Var("T")), A("int")) @@ "y" :> Var("T"))]}
\* argument annotations a child may give to a parent with n parameters, over the child's own candidate variables
NoFields == [q \in {} |-> A("int")]
ArgPool(vars) == Concrete \cup {Var(v) : v \in vars} \cup {ListOf(Var("T"))}
SeqsOf(S, n) == [1..n -> S]
Orders(S) == {s \in [1..Cardinality(S) -> S] : \A i, j \in 1..Cardinality(S) : i # j => s[i] # s[j]}
\* own parameters of a child: the variables its base arguments mention (in any order); a fresh variable W comes with a field
\* annotated by it
ChildrenWith(parentIdx, ba, fieldChoices) ==
  LET vs == UNION {VarsOf(ba[i]) : i \in 1..Len(ba)} IN
  UNION {{[params |-> ps, base |-> parentIdx, bargs |-> ba, fields |-> fl] : ps \in Orders(vs \cup UNION {VarsOf(fl[f]) : f \in DOMAIN fl})} :
            fl \in fieldChoices}
ChildrenOf(parentIdx, parent, vars) ==
  UNION {ChildrenWith(parentIdx, ba, {NoFields, ("w" :> A("str")), ("x" :> A("bool")), ("w" :> Var("W"))}) :
            ba \in {<<>>} \cup SeqsOf(ArgPool(vars), Len(parent.params))}
\* the third class of a chain: hands its parameters on unchanged, binds them all, re-orders them, or uses the parent bare
GrandChildrenOf(parentIdx, parent) ==
  LET n == Len(parent.params)
      ident == [i \in 1..n |-> Var(parent.params[i])]
      rev == [i \in 1..n |-> Var(parent.params[n + 1 - i])]
      bas == {<<>>, ident} \cup (IF n > 0 THEN {[i \in 1..n |-> A("int")], [i \in 1..n |-> ListOf(Var("T"))]} ELSE {})
  IN UNION {ChildrenWith(parentIdx, ba, {NoFields, ("v" :> A("int")), ("w" :> Var("W"))}) : ba \in bas}
         \cup (IF n = 2 THEN {[params |-> <<parent.params[2], parent.params[1]>>, base |-> parentIdx, bargs |-> ident, fields |-> NoFields]} ELSE {})
WellFormed(cls) == \A f \in DOMAIN cls.fields : VarsOf(cls.fields[f]) \subseteq {cls.params[i] : i \in 1..Len(cls.params)}

VARIABLES table, st, args
vars == <<table, st, args>>
Init == st = "root" /\ table = <<>> /\ args = <<>>
DeclareRoot == /\ st = "root" /\ \E r \in RootShapes : table' = <<r>>
               /\ st' = "decl" /\ args' = args
Declare == /\ st = "decl" /\ Len(table) < 3
           /\ \E c \in {x \in (IF Len(table) = 1 THEN ChildrenOf(1, table[1], {"T", "U"}) ELSE GrandChildrenOf(2, table[2])) : WellFormed(x)} :
                 table' = Append(table, c)
           /\ UNCHANGED <<st, args>>
\* use the last class: parametrised with concrete arguments, or bare
Use == /\ st = "decl"
       /\ LET leaf == table[Len(table)] IN
          \E a \in {<<>>} \cup SeqsOf(Concrete, Len(leaf.params)) : args' = a
       /\ st' = "case" /\ table' = table
Next == DeclareRoot \/ Declare \/ Use

(* ------------------------------ properties ------------------------------------------------- *)
Leaf == Len(table)
LeafArgs == IF args = <<>> THEN BareArgs(table[Leaf]) ELSE args
\* every field of a used class gets a closed type
AllFieldsClosed == st = "case" => \A f \in FieldNames(table, Leaf) : Closed(FieldType(table, Leaf, LeafArgs, f))
\* a pass-through intermediate class (same parameters handed on unchanged, no own fields) does not change any field type
PassThroughInvisible == st = "case" /\ Len(table) = 2 =>
   LET mid == [params |-> table[1].params, base |-> 1, bargs |-> [i \in 1..Len(table[1].params) |-> Var(table[1].params[i])], fields |-> NoFields]
       tb3 == <<table[1], mid, [table[2] EXCEPT !.base = 2]>>
   IN \A f \in FieldNames(table, 2) : FieldType(tb3, 3, LeafArgs, f) = FieldType(table, 2, LeafArgs, f)

CaseRecord == [table |-> [i \in 1..Len(table) |-> [params |-> table[i].params, base |-> table[i].base, bargs |-> table[i].bargs,
                                                     fields |-> [f \in DOMAIN table[i].fields |-> table[i].fields[f]]]],
               args |-> args, bare |-> args = <<>>,
               types |-> [f \in FieldNames(table, Leaf) |-> FieldType(table, Leaf, LeafArgs, f)]]
EmitCase == (st = "case" /\ EmitCases) => PrintT(ToJson(CaseRecord))
=======================================================================================
