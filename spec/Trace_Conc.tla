---------------------------------- MODULE Trace_Conc ----------------------------------
(***************************************************************************************)
(* Total monitor for event logs recorded from real threads under the baton scheduler   *)
(* (code -> spec, C12).  One ndjson line per run: [run, evs |-> <<events>>], events in *)
(* the global order of the shared-state operations:                                    *)
(*   [t, op |-> "stub_create"]            a thread created a recursion stub             *)
(*   [t, op |-> "bind"]                   it bound its stub (FuncWrapper.set_func)      *)
(*   [t, op |-> "cc_hit", creator, stub]  cached_call returned an entry stored by       *)
(*                                        `creator`; stub = the key contains a stub     *)
(*   [t, op |-> "call", ok]               the thread called its loader on nested data   *)
(* The monitor replays them through the abstract state of Conc.tla (which stubs are    *)
(* unbound, which foreign stub-closures a thread holds) and evaluates the clauses       *)
(*   hazard_free      no thread is handed a closure built on another thread's still     *)
(*                    unbound stub (Conc!NoForeignUnboundRef)                           *)
(*   call_explained   a call crashes iff the model predicts it (it holds a closure      *)
(*                    whose creator's stub is unbound at that moment)                   *)
(***************************************************************************************)
EXTENDS Naturals, Sequences, FiniteSets, TLC, Json, IOUtils

TraceLog == ndJsonDeserialize(IOEnv.TRACE_FILE)
VARIABLES l, verdict
tvars == <<l, verdict>>

RECURSIVE Walk(_, _, _, _, _)
\* returns the set of failing clauses of one run; unbound = threads with an unbound stub, holds = function thread -> creators
Walk(evs, i, unbound, holds, bad) ==
  IF i > Len(evs) THEN bad
  ELSE LET e == evs[i] IN
       CASE e.op = "stub_create" -> Walk(evs, i + 1, unbound \cup {e.t}, holds, bad)
         [] e.op = "bind" -> Walk(evs, i + 1, unbound \ {e.t}, holds, bad)
         [] e.op = "cc_hit" ->
              IF e.stub /\ e.creator # e.t
              THEN Walk(evs, i + 1, unbound, [holds EXCEPT ![e.t] = @ \cup {e.creator}],
                        IF e.creator \in unbound THEN bad \cup {"hazard_free"} ELSE bad)
              ELSE Walk(evs, i + 1, unbound, holds, bad)
         [] e.op = "call" ->
              LET predictedCrash == holds[e.t] \cap unbound # {} IN
              Walk(evs, i + 1, unbound, holds, IF predictedCrash = ~e.ok THEN bad ELSE bad \cup {"call_explained"})
         [] OTHER -> Walk(evs, i + 1, unbound, holds, bad)

ThreadsOf(evs) == {evs[i].t : i \in 1..Len(evs)}
TInit == l = 1 /\ verdict = [l |-> 0, bad |-> {}]
TNext == /\ l <= Len(TraceLog)
         /\ l' = l + 1
         /\ LET run == TraceLog[l] IN
            verdict' = [l |-> l, bad |-> Walk(run.evs, 1, {}, [t \in ThreadsOf(run.evs) |-> {}], {})]
Report == verdict.bad # {} => PrintT(ToJson(verdict))
AllConsumed == TLCGet("stats").diameter - 1 = Len(TraceLog)
=======================================================================================
