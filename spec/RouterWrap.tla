----------------------------------- MODULE RouterWrap -----------------------------------
(***************************************************************************************)
(* Recipe resolution for a location whose type is a WRAPPER of the same value          *)
(* (NewType, Annotated; property C09).                                                 *)
(*                                                                                     *)
(* Two semantics over the recipes of RouterRef:                                         *)
(*   Doc(r)   what the documentation implies - "NewType ... is treated as origin", the   *)
(*            tags of Annotated are ignored: the location is ONE request of origin A.    *)
(*   Code(r)  what the code does: the search runs at the wrapped location first, where   *)
(*            no exact-origin checker matches (mc = {predY}); the builtin unwrapping     *)
(*            provider at the end of the recipe answers by sending a NEW request for     *)
(*            the unwrapped type at the same location, which is searched from the FIRST  *)
(*            provider again (Ref) - so every provider whose predicate does not pin the  *)
(*            spelled type is met at both levels.                                       *)
(* TLC checks that the two agree whenever every predicate pins a type (WrapInvisible)   *)
(* and shows that a composing provider that matches both spellings composes TWICE:      *)
(* ChainOnceW fails on Code - the recorded C09 finding; the harness replays every       *)
(* recipe on the real retort and demands Code(r).                                       *)
(***************************************************************************************)
EXTENDS RouterRef, TLC, Json

CONSTANTS MaxLen, EmitCases

WithBuiltin(r) == Append(r, Builtin)
Doc(r) == Ref(WithBuiltin(r), 1)

\* the search at the wrapped location (the builtin unwrapping provider stands behind the user's providers)
RECURSIVE CodeG(_, _)
CodeG(r, from) ==
  \* unwrapping: a new request, searched from the first provider.  A TERMINAL refusal ends that request only: for the search at
  \* the wrapped location the unwrapping provider has simply failed (observed on the real retort: [exA/abort, predY/deleg] logs 2,1,1)
  IF from > Len(r) THEN [Ref(WithBuiltin(r), 1) EXCEPT !.ab = FALSE]
  ELSE LET p == r[from] IN
       IF p.c # "predY" THEN CodeG(r, from + 1)
       ELSE IF p.h = "plain" THEN [ok |-> TRUE, term |-> <<from>>, log |-> <<from>>, ab |-> FALSE]
       ELSE IF p.h = "abort" THEN [ok |-> FALSE, term |-> <<>>, log |-> <<from>>, ab |-> TRUE]
       ELSE LET n == CodeG(r, from + 1) IN
            IF p.h = "decline" THEN [n EXCEPT !.log = <<from>> \o @]
            ELSE IF n.ok THEN [ok |-> TRUE, term |-> Compose(p.h, from, n.term), log |-> <<from>> \o n.log, ab |-> FALSE]
                 ELSE IF n.ab THEN [ok |-> FALSE, term |-> <<>>, log |-> <<from>> \o n.log, ab |-> TRUE]
                 ELSE [ok |-> FALSE, term |-> <<>>, log |-> (<<from>> \o n.log) \o n.log, ab |-> FALSE]
Code(r) == CodeG(r, 1)

Count(i, s) == Cardinality({k \in 1..Len(s) : s[k] = i})
Twice(r) == \E i \in 1..Len(r) : Count(i, Code(r).term) > 1

(* ------------------------------ the case-building machine ----------------------------- *)
VARIABLES rec, phase
vars == <<rec, phase>>
Init == rec = <<>> /\ phase = "pick"
AddProvider == /\ phase = "pick" /\ Len(rec) < MaxLen
               /\ \E p \in Providers : rec' = Append(rec, p)
               /\ phase' = phase
Done == phase = "pick" /\ phase' = "done" /\ rec' = rec
Next == AddProvider \/ Done

IsDone == phase = "done"
\* a wrapper is invisible as long as every predicate pins a spelled type (exact classes): the request for the unwrapped type is
\* the only one that meets them.  A provider whose predicate matches both spellings is met at the wrapped level FIRST - it can
\* serve there, in front of exact-type providers written before it ([exA/first, predY/plain]: the exA link is never composed);
\* that follows from "a class predicate applies to the same types" and is not a finding.
TypeAgnostic(r) == \E i \in 1..Len(r) : r[i].c = "predY"
WrapInvisible == (IsDone /\ ~TypeAgnostic(rec)) => (Code(rec).ok = Doc(rec).ok /\ Code(rec).term = Doc(rec).term /\ Code(rec).log = Doc(rec).log)
\* whatever is served is served by providers of the recipe (or the builtin one), each link of the documented result included
ServedSubset == (IsDone /\ Code(rec).ok) => \A k \in 1..Len(Code(rec).term) : Code(rec).term[k] \in 1..(Len(rec) + 1)
\* "chaining composes exactly once" - FAILS on Code (kept out of the invariant list of the replay run; checked to fail in a run of its own)
ChainOnceW == IsDone => ~Twice(rec)

CaseRecord == [rec |-> rec, tail |-> TRUE, req |-> "W", ok |-> Code(rec).ok, term |-> Code(rec).term, log |-> Code(rec).log,
               doc_term |-> Doc(rec).term, twice |-> Twice(rec)]
EmitCase == (IsDone /\ EmitCases) => PrintT(ToJson(CaseRecord))
=======================================================================================
