"""code -> spec over the repository's own test-suite: runs pytest with vf/harvest_plugin.py, validates the harvested calls with
spec/Trace_Harvest.tla and reports the clauses a property owns."""
from __future__ import annotations

import json
import os
import subprocess
import sys

from .core import ROOT, Ctx, stable_hash
from .tlc import MachineryError
from .trace import validate

QUICK_PATHS = ["tests/unit/morphing/test_concrete_provider.py", "tests/unit/morphing/test_iterable_provider.py", "tests/unit/morphing/test_dict_provider.py",
               "tests/unit/morphing/test_constant_length_tuple_provider.py", "tests/unit/morphing/test_enum_provider.py",
               "tests/unit/morphing/generic_provider", "tests/unit/morphing/facade", "tests/integration/morphing"]
THOROUGH_PATHS = ["tests", "docs/examples"]
REPO = os.environ.get("VERIF_REPO", "/repo")
OWNERS = {"C06": {"modes_agree_on_acceptance", "modes_agree_on_value"}, "C07": {"strict_narrows"}, "C11": {"history_free"},
          "C20": {"repeat_equal", "arg_unchanged"}}


def harvest(ctx: Ctx) -> list[dict]:
    out = ctx.scratch.sub("harvest") / "calls.ndjson"
    paths = [p for p in (QUICK_PATHS if ctx.tier == "quick" else THOROUGH_PATHS) if os.path.exists(os.path.join(REPO, p))]
    if not paths:
        raise MachineryError(f"harvest: none of the test paths exists in {REPO}")
    env = {**os.environ, "PYTHONHASHSEED": "0", "VF_HARVEST_OUT": str(out), "PYTHONPATH": f"{REPO}/src:{REPO}/tests/tests_helpers:{ROOT}",
           "VF_HARVEST_LIMIT": "8000" if ctx.tier == "quick" else "100000"}
    proc = subprocess.run([sys.executable, "-m", "pytest", "-q", "-p", "no:cacheprovider", "-p", "vf.harvest_plugin", "--timeout=900",
                           "--continue-on-collection-errors", *paths],
                          cwd=REPO, env=env, capture_output=True, text=True, timeout=3000)
    if not out.exists():
        raise MachineryError(f"harvest: pytest produced no trace file: {proc.stdout[-600:]} {proc.stderr[-600:]}")
    lines = [json.loads(ln) for ln in open(out) if ln.strip()]
    if len(lines) < 50:
        raise MachineryError(f"harvest: only {len(lines)} calls harvested: {proc.stdout[-600:]} {proc.stderr[-400:]}")
    ctx.extra["harvest_pytest_summary"] = proc.stdout.strip().splitlines()[-1][:200] if proc.stdout.strip() else ""
    return lines


def check(ctx: Ctx, pid: str) -> None:
    """validate the harvested calls and report the clauses owned by property pid"""
    lines = harvest(ctx)
    # identical observations (same test body parametrised many times) are judged once
    distinct: dict = {}
    for ln in lines:
        key = stable_hash([ln["op"], ln["tp"], ln["strict"], ln["dt"], ln["tags"], ln["vals"], ln["arg_same"], ln["detail"]["data"]])
        distinct.setdefault(key, ln)
    uniq = list(distinct.values())
    slim = [{k: v for k, v in ln.items() if k in ("tags", "vals", "has_lax", "arg_same")} for ln in uniq]
    verdicts = validate(ctx, "Trace_Harvest", slim, tag=f"Harvest_{pid}")
    ctx.trace_lines += len(lines) - len(uniq)
    nd = sum(1 for v in verdicts if v.get("nd"))
    ctx.extra["harvested_calls"] = len(lines)
    ctx.extra["harvested_distinct"] = len(uniq)
    ctx.extra["harvested_dropped_nondeterministic"] = nd
    ctx.extra["harvested_tests"] = len({ln["test"] for ln in lines})
    for v in verdicts:
        ln = uniq[v["l"] - 1]
        for clause in sorted(set(v["bad"]) & OWNERS[pid]):
            ctx.violation({"what": "harvest:" + clause, "op": ln["op"], "tp": ln["tp"][:60]},
                          f"harvested from {ln['test']}: {ln['op']} {ln['tp']} strict={ln['strict']} dt={ln['dt']}: clause {clause} fails; data {ln['detail']['data']}; "
                          f"outcomes [own, again, again, fresh, fresh, DISABLE, FIRST, ALL(, lax)] = {list(zip(ln['tags'], ln['detail']['outs']))}"[:900],
                          {"line": ln, "clause": clause})
    if len(ctx.samples) < 6:
        ctx.samples.append({"harvested_call": {k: uniq[0][k] for k in ("test", "op", "tp", "strict", "dt", "tags", "vals")}})
