"""pytest plugin (lives in /verif, loaded with `-p vf.harvest_plugin`; nothing is added to /repo): turns the repository's own
test-suite into a producer of traces.  Every loader / dumper a test obtains from a retort is wrapped by a recording proxy;
each call a test makes is followed - outside the test's view - by the variations the properties quantify over:

  the same call again                                   (C20 repeat_equal, heap identities of the two results)
  a fresh equal retort (retort.replace())               (C11 history free; also the determinism filter)
  the other two debug_trail settings                    (C06 acceptance and value agree)
  strict_coercion=False when the retort is strict       (C07 strict accepted => lax accepted)

and one ndjson line per call is written to $VF_HARVEST_OUT; spec/Trace_Harvest.tla judges the lines.  The outcome of the tests
themselves is irrelevant here (proxies may break identity assertions); a call whose fresh-retort reference is not
reproducible (user code with state, clocks, mocks counting calls) is dropped (`nondeterministic`)."""
import copy
import json
import os
import threading

_guard = threading.local()
_state = {"out": None, "test": "?", "n": 0, "limit": int(os.environ.get("VF_HARVEST_LIMIT", "60000"))}


def _eq(a, b, depth: int = 0) -> bool:
    """structural equality that does not depend on a class defining __eq__ / __repr__"""
    try:
        if a == b:
            return True
    except Exception:  # noqa: BLE001
        pass
    if type(a) is not type(b):
        return False
    if depth > 20:
        return True
    if isinstance(a, dict):
        return len(a) == len(b) and all(any(_eq(k, k2, depth + 1) and _eq(v, v2, depth + 1) for k2, v2 in b.items()) for k, v in a.items())
    if isinstance(a, (list, tuple)):
        return len(a) == len(b) and all(_eq(x, y, depth + 1) for x, y in zip(a, b))
    if isinstance(a, (set, frozenset)):
        return len(a) == len(b) and all(any(_eq(x, y, depth + 1) for y in b) for x in a)
    if hasattr(a, "__dict__") and not isinstance(a, type):
        return _eq(vars(a), vars(b), depth + 1)
    if type(a).__repr__ is object.__repr__:
        return True                       # opaque objects: the harness cannot tell them apart, nothing is claimed
    try:
        return repr(a) == repr(b)
    except Exception:  # noqa: BLE001
        return True


def _outcome(func, arg):
    try:
        return ("ok", func(arg))
    except BaseException as e:  # noqa: BLE001
        return ("err", e)


def _copy(x):
    return copy.deepcopy(x)


def _classes(values: list) -> list:
    """equivalence class number of every value under _eq (first occurrence order)"""
    reps, out = [], []
    for v in values:
        for i, r in enumerate(reps):
            if _eq(v, r):
                out.append(i + 1)
                break
        else:
            reps.append(v)
            out.append(len(reps))
    return out


def _record(retort, op: str, tp, func, data, primary) -> None:
    from adaptix import DebugTrail
    from vf.props.c20 import containers, retort_reachable, snapshot
    if _state["n"] >= _state["limit"]:
        return
    getter = (lambda r: r.get_loader(tp)) if op == "load" else (lambda r: r.get_dumper(tp))
    try:
        base = _copy(data)
    except Exception:  # noqa: BLE001
        return                                  # generators, locks, ...: not repeatable
    strict, dt = retort._strict_coercion, retort._debug_trail
    # the same call again on the same retort
    arg = _copy(base)
    before = snapshot(arg)
    r1 = _outcome(func, arg)
    r2 = _outcome(func, arg)
    after = snapshot(arg)
    # fresh equal retorts (twice: determinism filter)
    f1 = _outcome(getter(retort.replace()), _copy(base))
    f2 = _outcome(getter(retort.replace()), _copy(base))
    modes = {}
    for m in DebugTrail:
        modes[m.name] = _outcome(getter(retort.replace(debug_trail=m)), _copy(base))
    lax = _outcome(getter(retort.replace(strict_coercion=False)), _copy(base)) if strict else None
    outs = [primary, r1, r2, f1, f2] + [modes[m.name] for m in DebugTrail] + ([lax] if lax else [])
    tags = [o[0] for o in outs]
    vals = _classes([o[1] if o[0] == "ok" else ("exc", type(o[1]).__name__) for o in outs])
    num: dict = {}

    def n(ids):
        return [num.setdefault(i, len(num) + 1) for i in ids]
    arg_c = containers(arg)
    rr = retort_reachable(func)
    c1 = containers(r1[1]) if r1[0] == "ok" else {}
    c2 = containers(r2[1]) if r2[0] == "ok" else {}
    line = {"test": _state["test"], "op": op, "tp": repr(tp)[:120], "strict": bool(strict), "dt": dt.name,
            "tags": tags, "vals": vals, "has_lax": lax is not None,
            "arg": n(arg_c), "retort": n(rr), "res1": n(c1), "res2": n(c2), "arg_same": before == after,
            "detail": {"data": repr(base)[:200], "outs": [repr(o[1])[:80] for o in outs]}}
    _state["out"].write(json.dumps(line, default=str) + "\n")
    _state["n"] += 1


class Proxy:
    """what a test receives instead of the loader / dumper: same call behaviour, plus the record"""

    def __init__(self, func, retort, op, tp):
        self.__dict__.update(_f=func, _r=retort, _op=op, _tp=tp)
        self.__wrapped__ = func

    def __call__(self, data):
        if getattr(_guard, "active", False):
            return self._f(data)
        try:
            keep = _copy(data)
        except Exception:  # noqa: BLE001
            return self._f(data)
        primary = _outcome(self._f, data)
        _guard.active = True
        try:
            _record(self._r, self._op, self._tp, self._f, keep, primary)
        except Exception:  # noqa: BLE001 - the harvest must never disturb a test
            pass
        finally:
            _guard.active = False
        if primary[0] == "ok":
            return primary[1]
        raise primary[1]

    def __getattr__(self, item):
        return getattr(self._f, item)


def pytest_configure(config):
    path = os.environ.get("VF_HARVEST_OUT")
    if not path:
        return
    _state["out"] = open(path, "w")
    from adaptix._internal.morphing.facade.retort import AdornedRetort
    orig_l, orig_d = AdornedRetort.get_loader, AdornedRetort.get_dumper

    def get_loader(self, tp):
        f = orig_l(self, tp)
        return f if getattr(_guard, "active", False) else Proxy(f, self, "load", tp)

    def get_dumper(self, tp):
        f = orig_d(self, tp)
        return f if getattr(_guard, "active", False) else Proxy(f, self, "dump", tp)
    AdornedRetort.get_loader, AdornedRetort.get_dumper = get_loader, get_dumper


def pytest_runtest_setup(item):
    _state["test"] = item.nodeid[-160:]


def pytest_unconfigure(config):
    if _state["out"]:
        _state["out"].close()
