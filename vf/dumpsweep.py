"""The Dump sweep: TLC enumerates (type, value) cases from spec/MC_Dump.tla with the documented outer form and
checks on the model that load is the inverse of dump (C01 on the documented rules).  Every case is replayed:
the value is dumped by the real library in every mode (outer form compared: C02 dump side; modes agree: C06),
loaded back (C01), and loaded back after json.dumps/json.loads when the form is JSON-representable (C01)."""
from __future__ import annotations

import collections
import json
import traceback
from collections import defaultdict
from typing import Any, Optional

from . import gamma, univ
from .core import Ctx, stable_hash
from .gamma import Node, canon, hint, type_str
from .loadsweep import PROFILES, _has_multi_rep, _min_per_sig, ctor_key, data_str, datum_key, has_literal, modes, q, size_of
from .par import pmap
from .tlc import MachineryError, make_cfg, run_tlc

INVS = ["RoundTripHolds", "RoundTripJsonHolds", "DumperExists", "EmitCase"]

DPROFILES = {
    "quick": dict(
        NestTokens=["i1", "i2", "bT", "s_a", "s_int", "none", "f_frac", "f1", "d_frac", "da", "td_neg", "by_a", "fr_half", "uu"],
        ElemKinds=["int", "str", "bool", "float", "Decimal", "date", "Any", "timedelta", "bytes", "None", "Fraction", "UUID"],
        IterTypeKinds=["list", "set", "Sequence", "tuple_var", "frozenset", "Iterable", "deque", "MutableSequence", "AbstractSet"],
        Width=2, Deep=True, reps=2),
    "thorough": dict(
        NestTokens=["i0", "i1", "i_huge", "bT", "s_a", "s_empty", "s_nonascii", "none", "f_frac", "f1", "f_inf",
                    "d_frac", "da", "dt", "ti", "td_neg", "td_frac", "by_a", "ba_a", "fr_half", "cx_j", "uu", "ip", "pa", "pat", "ppp", "net6", "if4"],
        # every scalar kind is explored at top level; as container elements: the kinds with a conversion of their own plus one member of
        # each documented "exact list" (all 32 kinds as elements made MC_Dump run for more than half an hour)
        ElemKinds=["int", "str", "bool", "float", "Decimal", "Fraction", "complex", "date", "time", "datetime", "timedelta", "Any", "None", "bytes",
                   "bytearray", "UUID", "Path", "IPv4Address", "Pattern", "object", "PurePosixPath", "IPv6Network", "IPv4Interface"],
        IterTypeKinds=["list", "set", "Sequence", "tuple_var", "frozenset", "Iterable", "deque", "MutableSequence", "AbstractSet", "Collection"],
        Width=2, Deep=True, reps=3),
}


def evd(term: dict, node: Node) -> Any:
    """python value of a documented outer form, given the concretised value"""
    c = term["c"]
    if c == "atom":
        if node.c == "atom" and term["a"] != node.a:
            return univ.rep(term["a"], node.k)         # the outer form is another token than the value (Enum member -> its value)
        return node.last
    if c == "dump":
        if term["f"] in ("BytesIO", "IObytes"):
            return univ.DUMPS[term["f"]](univ.rep(node.a, node.k))       # a fresh stream: the dumped one has been read
        return univ.DUMPS[term["f"]](node.last)
    if c == "dict":
        return {evd(a, kn): evd(b, vn) for a, kn, b, vn in zip(term["ks"], node.keys, term["vs"], node.vals)}
    kids = node.iter_children()
    xs = [evd(term["xs"][i], kids[i]) for i in node.iteration_order()]
    return list(xs) if c == "list" else tuple(xs)


def judge(T: dict, case: dict, fns_by_k: dict, reps: int, out: dict) -> None:
    v = case["v"]
    tstr, vstr = type_str(T), data_str(v)
    for k in range(reps):
        if k > 0 and not _has_multi_rep(v):
            break
        node = Node(v, k)
        fns = fns_by_k.get(k, fns_by_k[0])
        out["runs"] += 1
        dumped: dict = {}
        for s in (True, False):
            rt = case["rtS"] if s else case["rtL"]
            for dt in modes():
                dumper, loader = fns[(s, dt.name)]
                x = node.make()

                def add(cat, what, detail):
                    sig = {"what": what, "type": ctor_key(T), "datum": datum_key(v), "strict": s}
                    out[cat].append({"sig": sig, "detail": detail, "dt": dt.name, "size": size_of(T, v), "k": k, "strict": s,
                                     "T": T, "d": v, "model": case["out"], "py_datum": repr(x)})
                try:
                    d = dumper(x)
                except BaseException as e:  # noqa: BLE001
                    add("C02", "dumper_raises", f"{dt.name}: dump raised {type(e).__name__}: {str(e)[:150]}")
                    if not case["sub"] and rt:
                        add("C01", "dump_of_valid_value_raises", f"{dt.name}: dump raised {type(e).__name__}: {str(e)[:150]}")
                    dumped[(s, dt.name)] = ("err", e)
                    continue
                dumped[(s, dt.name)] = ("ok", d)
                try:
                    want = evd(case["out"], node)
                except Exception as e:  # noqa: BLE001
                    raise MachineryError(f"cannot evaluate outer form {case['out']} for {tstr} <- {vstr}: {e!r}") from None
                if canon(d) != canon(want):
                    add("C02", "wrong_outer_form", f"{dt.name}: dumped {d!r}; documented outer form {want!r}")
                    continue
                # ---- C20 (dump side): a container adaptix builds is a new object ------------------
                if isinstance(d, (list, dict, tuple)) and d is x and T["k"] not in ("Any", "union", "literal") and not (isinstance(d, tuple) and not d):
                    add("C20", "dump_returns_its_argument", f"{dt.name}: dump returned the argument object itself ({d!r})")
                if case["sub"] or not rt:
                    continue
                # ---- C01: load the dump back ---------------------------------------------------
                try:
                    y = loader(d)
                except BaseException as e:  # noqa: BLE001
                    add("C01", "load_of_dump_raises", f"{dt.name}: dump {d!r}; load raised {type(e).__name__}: {str(e)[:150]}")
                else:
                    if canon(y) != canon(x):
                        add("C01", "round_trip_differs", f"{dt.name}: x={x!r} dump={d!r} load={y!r}")
                try:
                    text = json.dumps(d)
                    jsonable = _str_keys(d)
                except (TypeError, ValueError):
                    jsonable = False
                if jsonable:
                    out["json_travels"] += 1
                    d2 = json.loads(text)
                    try:
                        y2 = loader(d2)
                    except BaseException as e:  # noqa: BLE001
                        add("C01", "load_after_json_raises", f"{dt.name}: dump {d!r} after JSON {d2!r}; load raised {type(e).__name__}: {str(e)[:120]}")
                    else:
                        if canon(y2) != canon(x):
                            add("C01", "round_trip_after_json_differs", f"{dt.name}: x={x!r} dump={d!r} json={d2!r} load={y2!r}")
        # ---- C06 (dump side): the three modes agree ---------------------------------------------
        for s in (True, False):
            tags = {m.name: dumped[(s, m.name)][0] for m in modes()}
            if len(set(tags.values())) > 1:
                out["C06"].append({"sig": {"what": "dump_acceptance_differs", "type": ctor_key(T), "datum": datum_key(v), "strict": s},
                                   "detail": f"dump per mode {tags}", "dt": None, "size": size_of(T, v), "k": k, "strict": s, "T": T, "d": v,
                                   "model": case["out"], "py_datum": repr(node.make())})
            elif tags["ALL"] == "ok" and len({repr(canon(dumped[(s, m)][1])) for m in tags}) > 1:
                out["C06"].append({"sig": {"what": "dump_value_differs", "type": ctor_key(T), "datum": datum_key(v), "strict": s},
                                   "detail": f"dumps per mode { {m: dumped[(s, m)][1] for m in tags} }", "dt": None, "size": size_of(T, v),
                                   "k": k, "strict": s, "T": T, "d": v, "model": case["out"], "py_datum": repr(node.make())})


def _str_keys(d: Any) -> bool:
    if isinstance(d, dict):
        return all(type(k) is str for k in d) and all(_str_keys(x) for x in d.values())
    if isinstance(d, (list, tuple)):
        return all(_str_keys(x) for x in d)
    return True


def _worker(items) -> dict:
    from adaptix import Retort
    out: dict = {"runs": 0, "cases": 0, "json_travels": 0, "C01": [], "C02": [], "C06": [], "C20": [], "creation_failed": [], "machinery": [],
                 "samples": []}
    for path, tjson, spans, reps, variant in items:
        T = json.loads(tjson)
        fns_by_k = {}
        try:
            for k in range(reps if has_literal(T) else 1):
                hk = hint(T, variant, k)
                if (len(tjson) + variant + k) % 2:
                    base = Retort(strict_coercion=False, recipe=gamma.user_recipe())
                    rs = {(s, dt.name): base.replace(strict_coercion=s, debug_trail=dt) for s in (False, True) for dt in modes()}
                else:
                    rs = {(s, dt.name): Retort(strict_coercion=s, debug_trail=dt, recipe=gamma.user_recipe()) for s in (False, True) for dt in modes()}
                fns_by_k[k] = {key: (r.get_dumper(hk), r.get_loader(hk)) for key, r in rs.items()}
        except Exception as e:  # noqa: BLE001
            out["creation_failed"].append({"type": type_str(T), "exc": repr(e)[:300]})
            continue
        with open(path, "rb") as f:
            for off, ln in spans:
                f.seek(off)
                case = json.loads(json.loads(f.read(ln).decode("utf-8")))
                out["cases"] += 1
                if len(out["samples"]) < 1 and case["out"]["c"] not in ("atom",):
                    out["samples"].append({"type": type_str(T), "value": data_str(case["v"]), "documented_outer_form": case["out"]})
                try:
                    judge(T, case, fns_by_k, reps, out)
                except MachineryError as e:
                    out["machinery"].append(str(e))
                except Exception:  # noqa: BLE001
                    out["machinery"].append(f"harness error on {type_str(T)} <- {data_str(case['v'])}: {traceback.format_exc()[-800:]}")
        for cat in ("C01", "C02", "C06", "C20"):
            out[cat] = _min_per_sig(out[cat])
    return out


def run_dump_sweep(ctx: Ctx, profile_name: Optional[str] = None) -> dict:
    prof = dict(DPROFILES[profile_name or ctx.tier])
    reps = prof.pop("reps")
    consts = {k: (q(v) if isinstance(v, list) else v) for k, v in prof.items()}
    consts["EmitCases"] = True
    cfg = make_cfg(constants=consts, invariants=INVS)
    res = run_tlc(ctx.scratch, "MC_Dump", cfg, tag="MC_Dump", timeout_s=3000, extra_files={"PyAxioms.tla": univ.axioms_tla()})
    ctx.add_tlc(res, f"exhaustive (type, value) enumeration with round-trip invariants, profile {profile_name or ctx.tier}")
    if not res.ok:
        ctx.model_violation(res, "the documented dump/load rules are not mutually inverse on the model")
    groups: dict[str, list] = defaultdict(list)
    off = 0
    with open(res.out_path, "rb") as f:
        for line in f:
            ln = len(line)
            if line.startswith(b'"{\\"T\\":'):
                end = line.find(b',\\"v\\":{')
                groups[line[8:end].decode()].append((off, ln - 1))
            off += ln
    tjsons = {tk: json.loads('"' + tk + '"') for tk in groups}
    # "for every value x": also in a process whose local time zone is not UTC (a POSIX TZ string needs no zone database); the
    # documented forms are zone independent, so nothing may change
    import os
    import time
    os.environ["TZ"] = "EST5EDT" if ctx.seed % 2 == 0 else "JST-9"
    time.tzset()
    items = []
    variant = ctx.seed % 2
    for tk, spans in groups.items():
        for i in range(0, len(spans), 300):
            items.append((str(res.out_path), tjsons[tk], spans[i:i + 300], reps, variant))
    total: dict = {"runs": 0, "cases": 0, "json_travels": 0, "C01": [], "C02": [], "C06": [], "C20": [], "creation_failed": [], "machinery": []}
    for o in pmap(_worker, items, chunk=1):
        for key in ("runs", "cases", "json_travels"):
            total[key] += o[key]
        for cat in ("C01", "C02", "C06", "C20", "creation_failed", "machinery"):
            total[cat] += o[cat]
        if len(ctx.samples) < 5:
            ctx.samples += o["samples"]
    if total["machinery"]:
        raise MachineryError(f"{len(total['machinery'])} harness failures, first: {total['machinery'][0]}")
    for cat in ("C01", "C02", "C06", "C20"):
        total[cat] = _min_per_sig(total[cat])
    ctx.replayed += total["runs"]
    ctx.evaluations += total["runs"] * 6
    ctx.nontrivial_n += total["cases"]
    ctx.extra["dump_cases"] = total["cases"]
    ctx.extra["json_travels"] = total["json_travels"]
    ctx.extra["dumper_creation_failed"] = total["creation_failed"][:20]
    return {"total": total, "res": res}


def report_dump(ctx: Ctx, sweep: dict, cat: str) -> None:
    fs = sorted(sweep["total"][cat], key=lambda f: (f["size"], json.dumps(f["sig"], sort_keys=True)))
    for f in fs:
        T = f["T"]
        src = ("# stand-alone reproduction (run with PYTHONPATH=/repo/src:/verif)\nimport json\nfrom adaptix import Retort, DebugTrail\nfrom vf import gamma\n"
               "from vf.gamma import hint, Node\n"
               f"T = json.loads({json.dumps(json.dumps(T))})\nv = json.loads({json.dumps(json.dumps(f['d']))})\n"
               f"for dt in DebugTrail:\n    r = Retort(strict_coercion={f['strict']}, debug_trail=dt, recipe=gamma.user_recipe())\n    x = Node(v, {f['k']}).make()\n"
               f"    d = r.dump(x, hint(T, 0, {f['k']}))\n    print(dt.name, repr(x), '->', repr(d), '->', repr(r.load(d, hint(T, 0, {f['k']}))))\n")
        ctx.violation(f["sig"], f"{f['sig']['what']}: {type_str(T)} value {data_str(f['d'])} strict={f['strict']}: {f['detail'][:170]}",
                      {"category": cat, "T": T, "v": f["d"], "rep": f["k"], "documented_outer_form": f["model"], "modes": sorted(f["dts"]),
                       "count": f["count"], "python_value": f["py_datum"], "detail": f["detail"], "source": src})
