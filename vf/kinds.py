"""gamma for model kinds (property C17, spec/Kinds.tla): the same logical shape  [id, req, ty]  declared as dataclass,
NamedTuple, TypedDict, attrs class, pydantic model and SQLAlchemy mapped class, written the way a user writes them
(class statements executed from source), plus uniform construct / read accessors."""

import itertools
from typing import Any, Optional

MISSING = "<absent key>"
PYTYPES = {"int": int, "str": str, "any": Any, "dec": __import__("decimal").Decimal}
ANN = {"int": "int", "str": "str", "any": "Any", "dec": "Decimal"}
_counter = itertools.count()


class Fac:
    """a default written as a factory expression"""

    def __init__(self, text: str):
        self.text = text

    def __repr__(self):
        return self.text


class Kind:
    factory_fmt = "{}"
    name = "?"
    tla = "total"            # which Kinds.tla variant describes it
    post_init: Optional[str] = None

    def supports(self, shape, sch: dict) -> Optional[str]:
        """None if the kind can declare the logical model under the documented limitations, else the reason"""
        return None

    def source(self, shape, names) -> str:
        raise NotImplementedError

    def make(self, shape, names, ctor_log: Optional[list] = None):
        import dataclasses
        import typing

        import attrs
        import pydantic
        import sqlalchemy
        import sqlalchemy.orm
        ns: dict = {"Any": Any, "typing": typing, "dataclasses": dataclasses, "attrs": attrs, "pydantic": pydantic, "sa": sqlalchemy,
                    "orm": sqlalchemy.orm, "ctor_log": ctor_log, "N": next(_counter), "Decimal": PYTYPES["dec"], "fresh_list": __import__("vf.layoutreplay", fromlist=["fresh_list"]).fresh_list}
        exec(self.source(shape, names, ctor_log is not None), ns)  # noqa: S102
        return ns["Model"]

    def construct(self, cls, vals: dict):
        return cls(**{k: v for k, v in vals.items() if v is not MISSING})

    def get(self, obj, name: str):
        return getattr(obj, name, "<missing attribute>")

    def logs_ctor(self) -> bool:
        return self.post_init is not None

    out_only_decl: Optional[str] = None      # how the kind declares a field the constructor does not take

    def out_only_unsupported(self, shape) -> Optional[str]:
        """Kinds.tla Supports, first two conjuncts"""
        if self.out_only_decl is None and any(f.get("dir", "io") == "out" for f in shape):
            return "the kind has no output-only fields"
        return None

    def _derived(self, shape, names):
        from .layoutreplay import derived_value
        return [(names.field(f["id"]), derived_value(shape, i)) for i, f in enumerate(shape, start=1) if f.get("dir", "io") == "out"]

    def _fields(self, shape, names):
        for f in shape:
            if f.get("dir", "io") == "out":
                yield names.field(f["id"]), ANN[f["ty"]], False, Fac(self.out_only_decl)
                continue
            ann = f"typing.Optional[{ANN[f['ty']]}]" if names.pytype(f["ty"], f["req"]) is not PYTYPES[f["ty"]] else ANN[f["ty"]]
            fac = names.factory(f["ty"])
            yield names.field(f["id"]), ann, f["req"], (Fac(self.factory_fmt.format(fac.__name__)) if fac and not f["req"] else names.default(f["ty"]))

    set_fmt = "self.{} = {!r}"

    def _hook(self, with_log: bool, derived=()) -> str:
        if (not with_log and not derived) or self.post_init is None:
            return ""
        body = (["ctor_log.append('post_init')"] if with_log else []) + [self.set_fmt.format(n, v) for n, v in derived]
        return f"    def {self.post_init}:\n" + "".join(f"        {b}\n" for b in body)


class DataclassKind(Kind):
    name = "dataclass"
    factory_fmt = "dataclasses.field(default_factory={})"
    post_init = "__post_init__(self)"
    out_only_decl = "dataclasses.field(init=False)"

    def source(self, shape, names, with_log=False):
        body = "".join(f"    {n}: {a}\n" if req else f"    {n}: {a} = {d!r}\n" for n, a, req, d in self._fields(shape, names))
        return "@dataclasses.dataclass(kw_only=True)\nclass Model:\n" + body + self._hook(with_log, self._derived(shape, names))


class NamedTupleKind(Kind):
    name = "namedtuple"

    def supports(self, shape, sch):
        seen_opt = False
        for f in shape:
            if f["id"]["lead"]:
                return "NamedTuple field names cannot start with an underscore (Python)"
            if not f["req"]:
                seen_opt = True
            elif seen_opt:
                return "NamedTuple: a field without default cannot follow one with default (Python)"
        return None

    def source(self, shape, names, with_log=False):
        body = "".join(f"    {n}: {a}\n" if req else f"    {n}: {a} = {d!r}\n" for n, a, req, d in self._fields(shape, names))
        return "class Model(typing.NamedTuple):\n" + body


class TypedDictKind(Kind):
    name = "typeddict"
    tla = "typeddict"

    def source(self, shape, names, with_log=False):
        body = "".join(f"    {n}: typing.{'Required' if req else 'NotRequired'}[{a}]\n" for n, a, req, d in self._fields(shape, names))
        return "class Model(typing.TypedDict):\n" + body

    def construct(self, cls, vals):
        return {k: v for k, v in vals.items() if v is not MISSING}

    def get(self, obj, name):
        return obj.get(name, MISSING)


class TypedDictTotalFalseKind(TypedDictKind):
    """the same keys declared through total=False + Required[] instead of NotRequired[] (key order reversed, as inheritance and
    hand-written classes commonly have it)"""
    name = "typeddict_total_false"

    def source(self, shape, names, with_log=False):
        fs = list(self._fields(shape, names))[::-1]
        body = "".join(f"    {n}: typing.Required[{a}]\n" if req else f"    {n}: {a}\n" for n, a, req, d in fs)
        return "class Model(typing.TypedDict, total=False):\n" + body


class AttrsKind(Kind):
    name = "attrs"
    factory_fmt = "attrs.Factory({})"
    post_init = "__attrs_post_init__(self)"
    out_only_decl = "attrs.field(init=False)"
    set_fmt = "object.__setattr__(self, {!r}, {!r})"

    def source(self, shape, names, with_log=False):
        body = "".join(f"    {n}: {a}\n" if req else f"    {n}: {a} = {d!r}\n" for n, a, req, d in self._fields(shape, names))
        return "@attrs.define(kw_only=True)\nclass Model:\n" + body + self._hook(with_log, self._derived(shape, names))

    def construct(self, cls, vals):
        # attrs strips leading underscores from constructor parameter names
        return cls(**{k.lstrip("_"): v for k, v in vals.items() if v is not MISSING})


class PydanticKind(Kind):
    name = "pydantic"
    factory_fmt = "pydantic.Field(default_factory={})"
    post_init = "model_post_init(self, context)"

    def supports(self, shape, sch):
        if any(f["id"]["lead"] for f in shape):
            return "pydantic: names with a leading underscore are private attributes, not fields"
        return None

    out_only_decl = "<computed field>"

    def out_only_unsupported(self, shape):
        dirs = [f.get("dir", "io") for f in shape]
        if "out" in dirs and "io" in dirs[dirs.index("out"):]:
            return "pydantic lists computed fields after the ordinary fields: an output-only field must come last"
        return None

    def _computed(self, shape, names) -> str:
        return "".join(f"    @pydantic.computed_field\n    @property\n    def {n}(self) -> {ANN[f['ty']]}:\n        return {v!r}\n"
                       for (n, v), f in zip(self._derived(shape, names), [f for f in shape if f.get("dir", "io") == "out"]))

    def source(self, shape, names, with_log=False):
        io = [f for f in shape if f.get("dir", "io") == "io"]
        body = "".join(f"    {n}: {a}\n" if req else f"    {n}: {a} = {d!r}\n" for n, a, req, d in self._fields(io, names))
        return "class Model(pydantic.BaseModel):\n" + body + self._computed(shape, names) + self._hook(with_log)

    def construct(self, cls, vals):
        import pydantic
        vals = {k: v for k, v in vals.items() if v is not MISSING}
        try:
            return cls(**vals)
        except pydantic.ValidationError:
            return cls.model_construct(**vals)       # an ill-typed object (pydantic validates in the constructor)


class SqlalchemyKind(Kind):
    name = "sqlalchemy"
    tla = "sqlalchemy"

    def supports(self, shape, sch):
        if sch.get("aslist"):
            return "sqlalchemy: the order of mapped fields is not registered, as_list=True is not supported (documented)"
        if any(f["ty"] == "dec" or (f["ty"] == "any" and not f["req"]) for f in shape):
            return "the harness declares no Decimal columns and no defaults of JSON columns"
        if shape[0]["ty"] != "int" or not shape[0]["req"]:
            return "the harness uses the first field as the primary key"
        return None

    def source(self, shape, names, with_log=False):
        lines = []
        for i, (n, a, req, d) in enumerate(self._fields(shape, names)):
            args = []
            if a == "Any":
                args.append("sa.JSON")
            if i == 0:
                args.append("primary_key=True, autoincrement=False")
            if not req:
                args.append(f"default={d!r}")
            lines.append(f"    {n}: orm.Mapped[{a}] = orm.mapped_column({', '.join(args)})\n")
        return ("class Base(orm.DeclarativeBase):\n    pass\nclass Model(Base):\n    __tablename__ = f'm_{N}'\n" + "".join(lines))


class SqlalchemyRenamedKind(SqlalchemyKind):
    """the columns carry explicit names that differ from the mapped attributes (mapped_column("col_a", ...)): the logical field is
    the attribute"""
    name = "sqlalchemy_renamed_columns"

    def source(self, shape, names, with_log=False):
        lines = []
        for i, (n, a, req, d) in enumerate(self._fields(shape, names)):
            args = [repr(f"col_{i}")]
            if a == "Any":
                args.append("sa.JSON")
            if i == 0:
                args.append("primary_key=True, autoincrement=False")
            if not req:
                args.append(f"default={d!r}")
            lines.append(f"    {n}: orm.Mapped[{a}] = orm.mapped_column({', '.join(args)})\n")
        return ("class Base(orm.DeclarativeBase):\n    pass\nclass Model(Base):\n    __tablename__ = f'm_{N}'\n" + "".join(lines))


def _defaults_last(shape) -> Optional[str]:
    seen_opt = False
    for f in shape:
        if not f["req"]:
            seen_opt = True
        elif seen_opt:
            return "a positional parameter without default cannot follow one with default (Python)"
    return None


def _body(fields) -> str:
    return "".join(f"    {n}: {a}\n" if req else f"    {n}: {a} = {d!r}\n" for n, a, req, d in fields) or "    pass\n"


class DataclassPositionalKind(DataclassKind):
    """@dataclass without kw_only: positional-or-keyword constructor parameters"""
    name = "dataclass_positional"

    def supports(self, shape, sch):
        return _defaults_last(shape)

    def source(self, shape, names, with_log=False):
        return "@dataclasses.dataclass\nclass Model:\n" + _body(self._fields(shape, names)) + self._hook(with_log, self._derived(shape, names))


class DataclassInheritedKind(DataclassKind):
    """the first field is declared by a base class, the rest by the model (field order: base first, as in the logical model)"""
    name = "dataclass_inherited"

    def source(self, shape, names, with_log=False):
        fs = list(self._fields(shape, names))
        return ("@dataclasses.dataclass(kw_only=True)\nclass Base:\n" + _body(fs[:1]) + "@dataclasses.dataclass(kw_only=True)\nclass Model(Base):\n"
                + _body(fs[1:]) + self._hook(with_log, self._derived(shape, names)))


class AttrsPositionalKind(AttrsKind):
    name = "attrs_positional"

    def supports(self, shape, sch):
        return _defaults_last(shape)

    def source(self, shape, names, with_log=False):
        return "@attrs.define\nclass Model:\n" + _body(self._fields(shape, names)) + self._hook(with_log, self._derived(shape, names))


class AttrsTakesSelfKind(AttrsKind):
    """positional attrs class whose defaults are instance-dependent factories (attrs.Factory(..., takes_self=True)): the loader cannot
    pass such a default itself, it leaves the parameter out - and must then pass the later parameters by keyword"""
    name = "attrs_takes_self"

    def supports(self, shape, sch):
        return _defaults_last(shape)

    def source(self, shape, names, with_log=False):
        lines = []
        first = True       # the FIRST defaulted field only: the later ones have plain defaults and stay ordinary parameters behind it
        for f, (n, a, req, d) in zip(shape, self._fields(shape, names)):
            if req or f.get("dir", "io") == "out" or not first:
                lines.append(f"    {n}: {a}\n" if req else f"    {n}: {a} = {d!r}\n")
            else:
                first = False
                fac = names.factory(f["ty"])
                val = f"{fac.__name__}()" if fac else repr(names.default(f["ty"]))
                lines.append(f"    {n}: {a} = attrs.Factory(lambda self: {val}, takes_self=True)\n")
        return "@attrs.define\nclass Model:\n" + "".join(lines) + self._hook(with_log, self._derived(shape, names))


class AttrsInheritedFrozenKind(AttrsKind):
    """frozen slotted attrs classes, first field inherited"""
    name = "attrs_inherited_frozen"

    def source(self, shape, names, with_log=False):
        fs = list(self._fields(shape, names))
        return ("@attrs.frozen(kw_only=True)\nclass Base:\n" + _body(fs[:1]) + "@attrs.frozen(kw_only=True)\nclass Model(Base):\n" + _body(fs[1:])
                + self._hook(with_log, self._derived(shape, names)))


class PydanticInheritedKind(PydanticKind):
    name = "pydantic_inherited"

    def source(self, shape, names, with_log=False):
        fs = list(self._fields([f for f in shape if f.get("dir", "io") == "io"], names))
        return "class Base(pydantic.BaseModel):\n" + _body(fs[:1]) + "class Model(Base):\n" + _body(fs[1:]) + self._computed(shape, names) + self._hook(with_log)


class TypedDictInheritedKind(TypedDictKind):
    """keys split over a total=True base and a total=False child with Required[] markers"""
    name = "typeddict_inherited"

    def source(self, shape, names, with_log=False):
        fs = list(self._fields(shape, names))
        base = "".join(f"    {n}: typing.{'Required' if req else 'NotRequired'}[{a}]\n" for n, a, req, d in fs[:1]) or "    pass\n"
        child = "".join(f"    {n}: typing.Required[{a}]\n" if req else f"    {n}: {a}\n" for n, a, req, d in fs[1:]) or "    pass\n"
        return "class Base(typing.TypedDict):\n" + base + "class Model(Base, total=False):\n" + child


MAIN_KINDS = [DataclassKind(), NamedTupleKind(), TypedDictKind(), TypedDictTotalFalseKind(), AttrsKind(), PydanticKind(), SqlalchemyKind()]
# other ways to declare the same logical model in the same kinds: each program meets some of them (chosen by its hash)
VARIANT_KINDS = [DataclassPositionalKind(), DataclassInheritedKind(), AttrsPositionalKind(), AttrsInheritedFrozenKind(), PydanticInheritedKind(),
                 TypedDictInheritedKind(), SqlalchemyRenamedKind(), AttrsTakesSelfKind()]
KINDS = MAIN_KINDS + VARIANT_KINDS
BY_NAME = {k.name: k for k in KINDS}
