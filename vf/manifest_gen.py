"""Generates MANIFEST.json from the table below (single source of truth for the registered checks)."""
from __future__ import annotations

import json
from pathlib import Path

ROOT = Path(__file__).resolve().parent.parent

CHECKS = {
    "C09": dict(
        technique="TLA+ spec Router.tla model-checked by TLC (router machine == reference chain of responsibility); "
                  "every TLC-enumerated recipe replayed on the real Retort; recorded consult logs validated by Trace_Router.tla",
        category="model_checking",
        text="TLC proves for every recipe up to the bound that the code-shaped routing machine (combiner, origin tables, "
             "search offsets, nested provide_from_next frames) equals the documented first-match semantics; the same runs "
             "enumerate every recipe, and each is executed on the real Retort with marker providers and the real "
             "Chain.FIRST/LAST wrappers (exhaustive to length 3 quick / 4 thorough, length 8 by simulation), and logs of random "
             "recipes up to length 24 are checked by the TLA+ trace monitor. Bounded-exhaustive, not a proof for unbounded recipes.",
        design_ref="6/C09",
        note="trusts: marker providers observe consultation; gamma's predicate concretisations belong to the abstract "
             "checker class; TLC/SANY; bounded recipe length",
    ),
}

NOT_YET = {}


def main() -> None:
    props = [json.loads(l) for l in open(ROOT / "properties.jsonl")]
    checks = []
    na = []
    for p in props:
        pid = p["id"]
        c = CHECKS.get(pid)
        if c is None:
            na.append({"property_id": pid, "reason": NOT_YET.get(pid, "check not built yet (work in progress; the TLA+ model for it is designed in DESIGN.md section 6)")})
            continue
        checks.append({
            "property_id": pid,
            "quick_cmd": f"./check {pid} --tier quick",
            "thorough_cmd": f"./check {pid} --tier thorough",
            "evidence_file": f"/verif/evidence/{pid}.json",
            "replay_cmd_template": f"./check {pid} --replay {{path}}",
            "engine": "tlc+replay",
            "level_claimed": {"category": c["category"], "text": c["text"], "design_ref": c["design_ref"]},
            "level_note": c["note"],
            "technique": c["technique"],
        })
    manifest = {
        "version": 1,
        "setup_cmd": "./check --setup",
        "hooks": {
            "guard": "ADAPTIX_VERIF",
            "enable": "no source hooks are needed: checks import adaptix from /repo/src of the current working tree and observe it "
                      "through harness-side wrappers (marker providers, instrumented dicts/constructors); ADAPTIX_VERIF is reserved",
            "baseline_off_cmd": "cd /repo && /venv/bin/python -m pytest -ra -q -p no:cacheprovider --timeout=900 --continue-on-collection-errors",
            "source_commits": [],
            "add_only": True,
        },
        "engines": [
            {"name": "tlc+replay", "path": "/verif/vf", "serves_properties": sorted(CHECKS),
             "kind_free_text": "explicit TLA+ specifications in /verif/spec checked with TLC; spec->code replay of TLC-enumerated "
                               "cases and code->spec validation of recorded ndjson traces by Trace_*.tla monitors"},
        ],
        "checks": checks,
        "not_applicable": na,
        "notes": "See DESIGN.md. Exit 0 = held (possibly after KNOWN-FINDING lines), 1 = VIOLATION, 2 = machinery failure.",
    }
    (ROOT / "MANIFEST.json").write_text(json.dumps(manifest, indent=1) + "\n")


if __name__ == "__main__":
    main()
