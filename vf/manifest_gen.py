"""Generates MANIFEST.json from the table below (single source of truth for the registered checks)."""
from __future__ import annotations

import json
from pathlib import Path

ROOT = Path(__file__).resolve().parent.parent

CHECKS = {
    "C09": dict(
        technique="TLA+ spec Router.tla model-checked by TLC (router machine == reference chain of responsibility); "
                  "every TLC-enumerated recipe replayed on the real Retort (requests of a normal origin and unnormalisable requests); "
                  "RouterNest.tla for retorts placed in recipes (isolated inner search, options resolved as requests); recorded consult logs "
                  "validated by Trace_Router.tla",
        category="model_checking",
        text="TLC proves for every recipe up to the bound that the code-shaped routing machine (combiner, origin tables, "
             "search offsets, nested provide_from_next frames) equals the documented first-match semantics; the same runs "
             "enumerate every recipe, and each is executed on the real Retort with marker providers and the real "
             "Chain.FIRST/LAST wrappers (exhaustive to length 3 quick / 4 thorough, length 8 by simulation), and logs of random "
             "recipes up to length 24 are checked by the TLA+ trace monitor. Bounded-exhaustive, not a proof for unbounded recipes.",
        design_ref="6/C09",
        note="trusts: marker providers observe consultation; gamma's predicate concretisations belong to the abstract "
             "checker class; TLC/SANY; bounded recipe length",
    ),
}

_LOAD_NOTE = ("trusts: spec/PyAxioms.tla (CPython constructor facts, regenerated from CPython each run); gamma/alpha in vf/gamma.py; "
              "token classes chosen so documented rules are constant on them; bounded type depth/width; TLC/SANY")
_LOAD_TECH = ("TLA+ spec Load.tla (documented loader relation Acc/Errs/Undef) model-checked by TLC through MC_Load.tla; every "
              "TLC-enumerated (type, datum) case replayed on the real Retort in all 6 modes")
CHECKS.update({
    "C02": dict(technique=_LOAD_TECH, category="model_checking", design_ref="6/C02", note=_LOAD_NOTE,
                text="The documented per-type rules are an explicit TLA+ relation; TLC checks the rule set is total and consistent and "
                     "enumerates every (type, datum) pair of the bounded universe with the set of documented results; the real loaders "
                     "must return one of them (typed equality) or reject exactly when the relation rejects, in all 6 modes. "
                     "Exhaustive over token classes x type depth 2, sampled inside a class (k representatives)."),
    "C01": dict(technique="TLA+ spec Dump.tla (documented outer forms) + Load.tla; TLC checks RoundTripHolds/RoundTripJsonHolds on every (type, value) "
                          "through MC_Dump.tla; every TLC-enumerated case dumped, loaded back and JSON-travelled on the real Retort in 6 modes",
                category="model_checking", design_ref="6/C01", note=_LOAD_NOTE,
                text="TLC proves on the bounded universe that the documented dump rules and the documented load rules are mutually inverse "
                     "(also after json.dumps/json.loads) for every type without overlapping unions, and enumerates every (type, value) case; "
                     "the real library must reproduce the documented outer form and load it back to a typed-equal value in all 6 modes. "
                     "Model layouts (name_mapping) and model kinds ride on the C03/C17 machinery."),
    "C08": dict(technique="TLA+ spec Ctor.tla (Python's def/call binding rules, call plans, default-token look-alike classes) model-checked "
                          "by TLC; every enumerated signature x skipped x present configuration and default-token pair replayed on real "
                          "classes with instrumented constructors",
                category="model_checking", design_ref="6/C08",
                note="trusts: spec/CtorAxioms.tla (==/hash classes, deep types of default tokens, from Python); constructor counters in "
                     "__init__/__post_init__/__attrs_post_init__; bounded signature length (3 quick / 4 thorough)",
                text="TLC proves with Python's own binding rules that a legal constructor call exists for every configuration (positional-"
                     "only parameters are required fields by adaptix's shape rule) and enumerates all signatures x skipped x present sets "
                     "and all (pairs of) default tokens of the look-alike universe; on the real code every case must call the constructor "
                     "exactly once, bind present fields to loaded values, and leave absent fields typed-equal (identical for singletons, "
                     "fresh for factories) to the declared default, for plain / dataclass / attrs / NamedTuple classes."),
    "C11": dict(technique="TLA+ spec Retort.tla: refinement Cached => HistoryFree model-checked by TLC (typed key equality; Python-== keys as spec "
                          "mutant); every TLC-enumerated history replayed by the history walker against fresh equal retorts; code->spec: the loader/dumper calls of the repository's own test-suite, harvested with their variations by a pytest plugin living in /verif and judged by Trace_Harvest.tla",
                category="model_checking", design_ref="6/C11",
                note="trusts: the response abstraction (behaviour vector on 18 probe data + one dump); pool of 18 confusable requests x 3 "
                     "constructions; histories of length <= 3; converter histories are covered by C13's alternating-recipe check",
                text="TLC proves that the cached facade machine refines the history-free one when cache keys compare typed, shows with a spec "
                     "mutant that Python-== keys do not, and enumerates all histories of facade calls of length 2 and 3 over the pool; the "
                     "walker performs each history on one real retort (and its replace()/extend() offspring) and every response, also when "
                     "asked again later, must equal that of a freshly constructed equal retort with an empty normalisation cache."),
    "C12": dict(technique="TLA+ spec Conc.tla (lookup/creation/caching protocol at the grain of shared-state operations) model-checked by TLC "
                          "(safety, hazard invariant, deadlock freedom, termination under fairness; code-as-is and repaired variants); real threads "
                          "under a baton scheduler with the same yield points: all schedules with bounded preemptions + random, plus random "
                          "preemption at source lines of the library (sys.settrace); every event log validated by the TLA+ monitor Trace_Conc.tla",
                category="model_checking", design_ref="6/C12",
                note="trusts: preemption only at instrumented yield points (dict operations on the three caches, stub binding, loader entry); "
                     "line-level preemption is random, not exhaustive; CPython dict atomicity; 8 scenarios, 2-3 threads; <= 2 (quick) / <= 3 (thorough) preemptions exhaustively up to a budget",
                text="TLC explores every interleaving of 2-3 threads through the protocol model: the repaired protocol is safe and live, the "
                     "code as it is reaches the hazard state (non-vacuity).  The same alphabet drives real threads on the real Retort: all "
                     "schedules with a bounded number of preemptions and random schedules, each followed by calls on nested data and compared "
                     "with a single-threaded run; every recorded event log must be explained by the model (a call crashes iff Conc.tla "
                     "predicts it).  The known race is reported as KNOWN-FINDING; any other exception, deadlock, lost thread or unexplained "
                     "run is a violation."),
    "C13": dict(technique="TLA+ spec Link.tla (documented linking search, symbolic plan per destination field) model-checked by TLC; every "
                          "enumerated program built with dataclasses + impl_converter + public link providers and run on tagged values",
                category="model_checking", design_ref="6/C13",
                note="trusts: tagged int values identify sources; dataclass kind; bounded field sets / parameters / recipe length "
                     "(1 exhaustive + <= 3 by simulation quick, 2 exhaustive thorough)",
                text="TLC checks that the documented linking search is first-match in recipe order and that parameters beat same-named "
                     "fields for top-level destination fields only, and enumerates every program with the plan (source field / parameter / "
                     "constant / function) of every top-level and nested destination field; the real converter must be created exactly when "
                     "every field has a source, equal the plan field-wise, leave the source unmodified, keep the stub's signature and "
                     "name, and give an equal fresh object on a repeated call."),
    "C14": dict(technique="TLA+ spec Convert.tla (documented Coercible relation + value-set semantics) model-checked by TLC through MC_Convert.tla "
                          "(reflexive, as-is rules type-sound, compound rules monotone); every ordered type pair x context replayed on get_converter",
                category="model_checking", design_ref="6/C14",
                note="trusts: conforms()/sample_values() as runtime reading of static types; Optional read as typing does; bounded pool "
                     "(34 / 46 types x 4 contexts); one-field dataclass models as carriers",
                text="TLC checks that the documented coercion relation is reflexive, that its pass-through rules are sound w.r.t. a value-set "
                     "semantics of types and that coercibility is preserved by the compound rules, and enumerates all ordered pairs of the "
                     "pool in 4 contexts; the real get_converter must refuse every pair outside the relation (with a witness value when it "
                     "does not) and every created converter must put only values of the destination's static type into the destination; "
                     "unlinked required / optional fields are refused under the default policy."),
    "C15": dict(technique="TLA+ spec PyTypes.tla (hints as written, Denote, rewriting machine) model-checked by TLC: preserving rewrites keep "
                          "the denotation; every transition replayed on normalize_type, loaders, dumpers and predicates",
                category="model_checking", design_ref="6/C15",
                note="trusts: gamma's hint construction (vf/props/c15.py); behavioural equivalence judged on a fixed probe vector; bounded "
                     "rewrite depth (2 quick / 3 thorough) over 25 seed hints",
                text="TLC checks that every rewrite the documentation calls meaning-preserving keeps Denote and that denotations are canonical, "
                     "and enumerates all transitions h -> h' reachable within the bound at every position; on the real code a preserving "
                     "transition must give equal normal forms with equal hashes and equivalent loaders, dumpers and predicates (with fresh "
                     "and warm lru_cache), an edit must give unequal normal forms, normalisation must be idempotent and bare generics get "
                     "the documented implicit parameters."),
    "C16": dict(technique="TLA+ spec Generic.tla (class tables built by Declare actions, FieldType by substitution through the hierarchy) "
                          "model-checked by TLC; every (class table, parametrisation) built as real dataclass / attrs / pydantic / NamedTuple / "
                          "TypedDict classes and probed field by field",
                category="model_checking", design_ref="6/C16",
                note="trusts: accepts() as the strict acceptance rule of the closed types of this universe; class source generation; chains of "
                     "<= 3 classes, <= 2 parameters (+ fresh variable); chains of length 3 sampled in the quick tier",
                text="TLC checks that every field of every used class gets a closed type and that a pass-through intermediate class does not "
                     "change any field type, and enumerates ~46k (class table, parametrisation or bare use) cases with the expected type of "
                     "every field; on the real code conforming data must load and round-trip, and for every field 14 leaf data decide that it "
                     "is loaded with exactly the documented substitution (data fitting only another substitution is rejected)."),
    "C18": dict(technique="TLA+ spec Enum.tla (flag values as bit sets, Python's Flag validity rule, documented load rules of the flag providers) "
                          "model-checked by TLC; every flag class x option combination x candidate representation replayed on real enum.Flag "
                          "classes; described Enum classes x providers",
                category="model_checking", design_ref="6/C18",
                note="trusts: Enum.tla Valid == enum.Flag's own rule (verified against Python for every class at run time); 3 bits; the six "
                     "described Enum classes of vf/props/c18.py; by-exact-value lookup by ==/hash counted as representation",
                text="TLC enumerates all Flag classes over 3 bits (<= 3 members quick, <= 4 thorough, with/without alias) with every option "
                     "combination of flag_by_member_names and flag_by_exact_value, and the model's Load on every candidate representation; on "
                     "the real providers creation must succeed for every non-excluded class, every member combination must dump to a "
                     "representation that the model's Load and the real loader map back to it, and every other candidate must be rejected "
                     "with a LoadError; Enum classes with look-alike values / mixins / aliases are checked for the enum providers."),
    "C19": dict(technique="TLA+ spec Layout.tla treats names/keys as uninterpreted tokens (model invariant under renaming); the TLC-enumerated "
                          "programs are replayed under hostile name/key dictionaries and must reproduce the model's outcomes; canary for execution",
                category="model_checking", design_ref="6/C19",
                note="trusts: hostile dictionaries in vf/props/c19.py (identifiers of the generators, builtins, keyword_ names, non-ASCII, "
                     "quotes/backslashes/braces/$/newlines/NUL/code fragments); field names stay legal identifiers; converter names via c13",
                text="Because the specification never inspects a name, every enumerated Layout program has the same verdict under any injective "
                     "renaming; the real generators are run on the same programs with 9 hostile dictionaries and must still create the program, "
                     "give every probe its model outcome (loader, dumper, errors, extras) and never execute supplied text (canary)."),
    "C17": dict(technique="TLA+ specs Kinds.tla (how each model kind declares a logical field: req / oreq / hasdfl / ctordfl; documented per-kind "
                          "limitations) + Layout.tla (the one kind-independent semantics); TLC checks KindsUniform on every enumerated program "
                          "and emits the programs for the total kinds, TypedDict and SQLAlchemy; each is replayed on real NamedTuple / attrs / "
                          "pydantic / SQLAlchemy / TypedDict classes - 7 main declarations and 7 variant spellings (positional, inherited first field, "
                          "frozen slots, total=False child, renamed columns) - with the model as the oracle; converters between all pairs",
                category="model_checking", design_ref="6/C17",
                note="trusts: vf/kinds.py (class statements per kind, executed from source) and the limitations listed in Kinds.tla; dataclass "
                     "itself is C03; gamma writes defaults as truthy values, as None / falsy values or as factories (chosen by program hash)",
                text="Uniformity is decided against one oracle: Layout.tla does not know the kind except through the four field attributes of "
                     "Kinds.tla, KindsUniform (TLC) shows that paths, refusals and probe outcomes coincide across kinds up to absent defaults, "
                     "and every program x supporting kind is run on the real library in three debug modes (creation verdicts, every probe, "
                     "every dump object incl. ill-typed ones with refusing field dumpers). Converters between all ordered pairs of kinds copy "
                     "every field."),
    "C20": dict(technique="TLA+ spec Heap.tla (identity rules Fresh / Disjoint / OnlyAsIsAliases over an abstract heap, TLC sanity model); heap "
                          "observations of pairs of successive equal calls recorded from the real library are judged by the total TLA+ monitor "
                          "Trace_Heap.tla; the Layout.tla programs and the Dump.tla sweep supply the calls; code->spec: the loader/dumper calls of the repository's own test-suite, harvested with their variations by a pytest plugin living in /verif and judged by Trace_Harvest.tla",
                category="model_checking", design_ref="6/C20",
                note="trusts: vf/props/c20.py containers() / retort_reachable() (mutable = list, dict, set, deque, bytearray, model instances; "
                     "retort-reachable = closure cells, defaults, referenced globals of generated functions); as-is positions = Any/object "
                     "fields, collected unknown values, same-type converter fields",
                text="Every observation records deep snapshots of the argument before and after two successive calls and the identities of all "
                     "mutable containers reachable from the argument, the produced callable and both results; the monitor evaluates "
                     "arg_unchanged, repeat_equal, alias_only_as_is, no_alias_with_retort and no_shared_mutable on every line. Sources: a "
                     "catalogue of load / dump / convert cases at every container-building site, every successful load and dump of every "
                     "TLC-enumerated Layout program, and the dump sweep."),
    "C10": dict(technique="TLA+ spec Preds.tla (Match over predicate syntax trees and location stacks) model-checked by TLC: documented "
                          "identities as invariants; per-expression verdict vectors replayed on the real checkers",
                category="model_checking", design_ref="6/C10",
                note="trusts: spec/PredAxioms.tla (issubclass/isabstract/isidentifier/re.fullmatch facts generated from Python); gamma "
                     "in vf/props/c10.py builds the same expression with the real P syntax; bounded nesting/stack depth",
                text="TLC checks the documented identities (P['n']==P.n, P[A]==A, P[A]+P.n==P[A].n, P[A,B]==P[A]|P[B], De Morgan, xor "
                     "associativity) for all stacks on the documented matching rules and enumerates every expression with its verdict on "
                     "every stack; the real create_loc_stack_checker must agree on every pair (exhaustive: ~500 expressions x 1332 "
                     "stacks quick, nesting 3 and the rich pools thorough), plus the effect route through a Retort."),
    "C03": dict(technique="TLA+ spec Layout.tla (schema merge, key generation, paths, refusal rules, LoadModel/DumpModel on the crown) "
                          "model-checked by TLC through MC_Layout.tla; every enumerated program replayed with the real name_mapping on its "
                          "model-generated probe family",
                category="model_checking", design_ref="6/C03",
                note="trusts: gamma's character-level rendering of names/styles/keys; dataclass kind here (other kinds in C17); bounded "
                     "shapes (3-4 fields) and recipes (<= 2 overlays); TLC/SANY",
                text="Every generated loader/dumper program of the bounded space gets its own exhaustive small input family, computed by "
                     "the model (TLC is enumerator and oracle): creation refused exactly when documented, every field taken from / written "
                     "to exactly its documented path, unknown keys handled per policy with exact key sets, omit_default, list gaps; "
                     "TLC also checks on the model that a created loader loads its own layout, loader and dumper agree, map beats "
                     "style/trim, skip beats only."),
    "C04": dict(technique=_LOAD_TECH + "; any exception that is not a LoadError tree is a violation", category="model_checking",
                design_ref="6/C04", note=_LOAD_NOTE,
                text="The model's outcome alphabet is {accepted, LoadError tree}; every enumerated case (incl. the hostile token classes "
                     "huge ints, nan/inf, non-ascii/malformed strings, unhashable values, wrong containers, non-string-keyed mappings) is "
                     "run on the real loaders in 6 modes and any foreign exception class is reported with its call site."),
    "C05": dict(technique=_LOAD_TECH + "; Errs (complete set of trails) compared with the flattened real error tree", category="model_checking",
                design_ref="6/C05", note=_LOAD_NOTE,
                text="Errs(T,d,s) is the documented complete set of invalid positions; under ALL the real error tree, flattened with "
                     "trails concatenated and translated back to abstract positions by walking the datum, must equal it exactly (no "
                     "duplicates), under FIRST be one member, under DISABLE carry no trail."),
    "C06": dict(technique=_LOAD_TECH + "; the three debug_trail programs compared pairwise on every case; code->spec: the loader/dumper calls of the repository's own test-suite, harvested with their variations by a pytest plugin living in /verif and judged by Trace_Harvest.tla", category="model_checking",
                design_ref="6/C06", note=_LOAD_NOTE,
                text="The model's verdict does not take debug_trail as a parameter; every enumerated case is run on the three "
                     "independently generated programs (DISABLE/FIRST/ALL) for both coercion modes: same acceptance, typed-equal "
                     "results, and the single error (class, input value) must be among those collected under ALL."),
    "C07": dict(technique=_LOAD_TECH + "; TLC invariants StrictNarrows/StrictOrigins on the documented rules, strict vs lax compared on every case; code->spec: the loader/dumper calls of the repository's own test-suite, harvested with their variations by a pytest plugin living in /verif and judged by Trace_Harvest.tla",
                category="model_checking", design_ref="6/C07", note=_LOAD_NOTE,
                text="TLC proves on the documented rule set that strict acceptance is a subset of lax acceptance (equal results unless a "
                     "union is involved) and that strict acceptance implies an allowed strict origin; the same is then checked between the "
                     "real strict and lax loaders (lax obtained both directly and through replace()) on every enumerated case."),
})

NOT_YET = {}


def main() -> None:
    props = [json.loads(l) for l in open(ROOT / "properties.jsonl")]
    checks = []
    na = []
    for p in props:
        pid = p["id"]
        c = CHECKS.get(pid)
        if c is None:
            na.append({"property_id": pid, "reason": NOT_YET.get(pid, "check not built yet (work in progress; the TLA+ model for it is designed in DESIGN.md section 6)")})
            continue
        checks.append({
            "property_id": pid,
            "quick_cmd": f"./check {pid} --tier quick",
            "thorough_cmd": f"./check {pid} --tier thorough",
            "evidence_file": f"/verif/evidence/{pid}.json",
            "replay_cmd_template": f"./check {pid} --replay {{path}}",
            "engine": "tlc+replay",
            "level_claimed": {"category": c["category"], "text": c["text"], "design_ref": c["design_ref"]},
            "level_note": c["note"],
            "technique": c["technique"],
        })
    manifest = {
        "version": 1,
        "setup_cmd": "./check --setup",
        "hooks": {
            "guard": "ADAPTIX_VERIF",
            "enable": "no source hooks are needed: checks import adaptix from /repo/src of the current working tree and observe it "
                      "through harness-side wrappers (marker providers, instrumented dicts/constructors); ADAPTIX_VERIF is reserved",
            "baseline_off_cmd": "cd /repo && /venv/bin/python -m pytest -ra -q -p no:cacheprovider --timeout=900 --continue-on-collection-errors",
            "source_commits": [],
            "add_only": True,
        },
        "engines": [
            {"name": "tlc+replay", "path": "/verif/vf", "serves_properties": sorted(CHECKS),
             "kind_free_text": "explicit TLA+ specifications in /verif/spec checked with TLC; spec->code replay of TLC-enumerated "
                               "cases and code->spec validation of recorded ndjson traces by Trace_*.tla monitors"},
        ],
        "checks": checks,
        "not_applicable": na,
        "notes": "See DESIGN.md. Exit 0 = held (possibly after KNOWN-FINDING lines), 1 = VIOLATION, 2 = machinery failure.",
    }
    (ROOT / "MANIFEST.json").write_text(json.dumps(manifest, indent=1) + "\n")


if __name__ == "__main__":
    main()
