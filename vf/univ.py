"""The abstract universe shared by the TLA+ models and the harness: tokens (classes of concrete Python
values) with their representatives, gamma (abstract -> Python) and alpha (Python -> abstract), and
the generator of spec/PyAxioms.tla -- finite tables of facts about *CPython* (not about adaptix):
python type of a token, ==/hash equivalence classes, hashability, and for every constructor the
documentation refers to ("lax mode allows all conversions the constructor can perform") whether the
constructor accepts the token.  The tables are computed from CPython itself every time."""
from __future__ import annotations

import base64
import binascii
import collections
import collections.abc
import datetime as dtm
import decimal
import enum
import fractions
import io
import ipaddress
import math
import pathlib
import re
import typing
import uuid
from decimal import Decimal
from fractions import Fraction
from typing import Any, Optional

# ---------------------------------------------------------------------------------------------
# tokens: name -> list of representatives (python expressions evaluated once)
# every documented rule must be constant on a token's representatives (checked by check_classes)
# ---------------------------------------------------------------------------------------------
class NonSeek(io.RawIOBase):
    """a readable binary stream that is not seekable (a pipe, a socket file): IO[bytes] dumps what can be read from it"""

    def __init__(self, data: bytes):
        self._buf = io.BytesIO(data)

    def readable(self):
        return True

    def seekable(self):
        return False

    def readinto(self, b):
        return self._buf.readinto(b)

    def seek(self, *a):
        raise io.UnsupportedOperation("seek")


class MyStr(str):
    """an instance of a str SUBCLASS: 'any iterable excluding str and Mapping' must exclude it as well"""


class IE(enum.IntEnum):
    """IntEnum members are ==-equal to ints (and to True): look-alikes of the plain Literal members next to them"""
    A = 1
    B = 2


class E(enum.Enum):
    """members of Literal[...] types: 'Enum instances will be loaded via its loaders' (by exact value)"""
    A = "ea"
    B = 5


_NS = {"Decimal": Decimal, "Fraction": Fraction, "dtm": dtm, "uuid": uuid, "pathlib": pathlib,
       "ipaddress": ipaddress, "re": re, "math": math, "E": E, "MyStr": MyStr, "IE": IE, "io": io, "NonSeek": NonSeek}

TOKENS: dict[str, list[str]] = {
    "none": ["None"],
    "bT": ["True"], "bF": ["False"],
    "i0": ["0"], "i1": ["1"], "i2": ["2", "7", "42"], "i_neg": ["-3", "-1"], "i_big": ["10**20", "2**64+1"],
    "i_huge": ["10**400", "10**1000"],
    "f0": ["0.0"], "f1": ["1.0"], "f_frac": ["1.5", "2.25"], "f_neg": ["-1.5", "-0.25"],
    "f_nan": ["float('nan')"], "f_inf": ["float('inf')", "float('-inf')"], "f_huge": ["1e18", "-1e18"],
    "s_empty": ["''"], "s_a": ["'abc'", "'x y'"], "s_int": ["'1'", "'42'"], "s_zero": ["'0'"], "s_frac": ["'1.5'", "'2.25'"],
    "s_cx1": ["'(1+0j)'"], "s_cxp": ["'(1+2j)'"], "s_path": ["'a/b'"], "s_re": ["'a+'"],
    "s_ratio": ["'1/2'", "'3/4'"], "s_badratio": ["'1/0'"], "s_cx": ["'1+2j'"],
    "s_date": ["'2020-01-02'", "'1999-12-31'"], "s_time": ["'10:20:30'"], "s_dt": ["'2020-01-02T10:20:30'"], "s_fmt": ["'2020/01/02 10.20.30'"],
    "s_uuid": ["'12345678-1234-5678-1234-567812345678'"], "s_b64": ["'YWJj'", "'AAEC'"], "s_badb64": ["'a'", "'abcde'"],
    "s_nonascii": ["'\\u00e9'", "'\\u4f60\\u597d'"], "s_ip4": ["'127.0.0.1'", "'10.0.0.1'"], "s_badre": ["'('", "'a{99999999999999999999}'", "'[a'"],
    "d_huge": ["Decimal('1e28')", "Decimal('-3.5e40')"],
    "d0": ["Decimal(0)"], "d1": ["Decimal(1)"], "d_frac": ["Decimal('1.5')", "Decimal('2.25')"], "d_nan": ["Decimal('NaN')"],
    "fr1": ["Fraction(1)"], "fr_half": ["Fraction(1, 2)", "Fraction(3, 4)"],
    "cx1": ["complex(1, 0)"], "cx_j": ["1+2j"],
    "by_a": ["b'abc'", "b'\\x00\\x01\\x02'"], "ba_a": ["bytearray(b'abc')"],
    "f_secs": ["90.0", "172803.0"],
    "td": ["dtm.timedelta(seconds=90)", "dtm.timedelta(days=2, seconds=3)"], "td_frac": ["dtm.timedelta(seconds=1.5)", "dtm.timedelta(seconds=2.25)"],
    "td_neg": ["dtm.timedelta(seconds=-1.5)", "dtm.timedelta(seconds=-0.25)"],
    "dt": ["dtm.datetime(2020, 1, 2, 10, 20, 30)"], "dt_utc": ["dtm.datetime(2020, 1, 2, 10, 20, 30, tzinfo=dtm.timezone.utc)", "dtm.datetime(1999, 12, 31, 23, 59, tzinfo=dtm.timezone.utc)"], "da": ["dtm.date(2020, 1, 2)", "dtm.date(1999, 12, 31)"], "ti": ["dtm.time(10, 20, 30)"],
    "uu": ["uuid.UUID('12345678-1234-5678-1234-567812345678')"], "pa": ["pathlib.Path('a/b')"],
    "ip": ["ipaddress.IPv4Address('127.0.0.1')", "ipaddress.IPv4Address('10.0.0.1')"], "pat": ["re.compile('a+')"],
    "s_ea": ["'ea'"], "i5": ["5"], "e_a": ["E.A"], "e_b": ["E.B"],
    "s_sub": ["MyStr('abc')", "MyStr('x y')"],
    "ie_a": ["IE.A"], "ie_b": ["IE.B"],
    "bio": ["io.BytesIO(b'abc')", "io.BytesIO(b'\\x00\\x01\\x02')"], "rio": ["NonSeek(b'abc')", "NonSeek(b'\\x00\\x01\\x02')"],
    # the rest of the documented "exact lists": path-like classes, IP addresses / networks / interfaces
    "ppp": ["pathlib.PurePosixPath('a/b')"], "pwp": ["pathlib.PureWindowsPath('a/b')"],
    "s_ip6": ["'::1'", "'fe80::1'"], "s_net4": ["'10.0.0.0/30'", "'192.168.0.4/31'"], "s_net6": ["'fe80::/126'"],
    "s_if4": ["'10.0.0.1/8'", "'192.168.1.1/16'"], "s_if6": ["'fe80::1/64'"],
    "ip6": ["ipaddress.IPv6Address('::1')", "ipaddress.IPv6Address('fe80::1')"],
    # (networks are ITERABLE - they yield their addresses - so the representatives are tiny networks)
    "net4": ["ipaddress.IPv4Network('10.0.0.0/30')", "ipaddress.IPv4Network('192.168.0.4/31')"], "net6": ["ipaddress.IPv6Network('fe80::/126')"],
    "if4": ["ipaddress.IPv4Interface('10.0.0.1/8')", "ipaddress.IPv4Interface('192.168.1.1/16')"], "if6": ["ipaddress.IPv6Interface('fe80::1/64')"],
    "obj": ["object()"],
}


STATEFUL_TOKENS = {"bio", "rio"}


def rep(token: str, k: int = 0) -> Any:
    exprs = TOKENS[token]
    return eval(exprs[k % len(exprs)], dict(_NS))  # noqa: S307


def n_reps(token: str) -> int:
    return len(TOKENS[token])


# ---------------------------------------------------------------------------------------------
# constructors the documentation refers to
# ---------------------------------------------------------------------------------------------
def _b64(x):
    if not isinstance(x, str):
        raise TypeError
    raw = x.encode("ascii")
    if not re.fullmatch(rb"[A-Za-z0-9+/]*={0,2}", raw):
        raise ValueError
    return binascii.a2b_base64(raw)


def _td_seconds(x):
    """'int, float or Decimal representing seconds' -- exact rational arithmetic, rounded to microseconds"""
    if type(x) not in (int, float, Decimal):
        raise TypeError
    us = Fraction(x) * 10 ** 6
    return dtm.timedelta(microseconds=round(us))


def _num_only(f):
    """'UNIX timestamp': an int or a float (what else the raw function takes is not decided by the documentation)"""
    def g(x):
        if type(x) not in (int, float):
            raise TypeError
        return f(x)
    return g


TS_FORMAT = "%Y/%m/%d %H.%M.%S"


def _str_only(f):
    def g(x):
        if not isinstance(x, str):
            raise TypeError
        return f(x)
    return g


CTORS: dict[str, Any] = {
    "int": int, "float": float, "str": str, "bool": bool, "Decimal": Decimal, "Fraction": Fraction, "complex": complex,
    "b64": _b64, "b64ba": lambda x: bytearray(_b64(x)), "b64bio": lambda x: io.BytesIO(_b64(x)),
    "date": _str_only(dtm.date.fromisoformat), "time": _str_only(dtm.time.fromisoformat),
    "datetime": _str_only(dtm.datetime.fromisoformat),
    "timedelta": _td_seconds, "UUID": _str_only(uuid.UUID), "Path": _str_only(pathlib.Path),
    "IPv4Address": _str_only(ipaddress.IPv4Address), "re": _str_only(re.compile),
    "PurePath": _str_only(pathlib.PurePath), "PurePosixPath": _str_only(pathlib.PurePosixPath), "PosixPath": _str_only(pathlib.PosixPath),
    "PureWindowsPath": _str_only(pathlib.PureWindowsPath),
    "IPv6Address": _str_only(ipaddress.IPv6Address), "IPv4Network": _str_only(ipaddress.IPv4Network), "IPv6Network": _str_only(ipaddress.IPv6Network),
    "IPv4Interface": _str_only(ipaddress.IPv4Interface), "IPv6Interface": _str_only(ipaddress.IPv6Interface),
    "id": lambda x: x,
    # the configurable date providers: datetime_by_timestamp() [tz = UTC], date_by_timestamp(), datetime_by_format(fmt=TS_FORMAT)
    "ts": _num_only(lambda x: dtm.datetime.fromtimestamp(x, tz=dtm.timezone.utc)), "dats": _num_only(lambda x: dtm.datetime.fromtimestamp(x, tz=dtm.timezone.utc).date()),
    "fmt": _str_only(lambda x: dtm.datetime.strptime(x, TS_FORMAT)),
}


# the documented outer forms ("Dumping to" column and the per-type paragraphs)
DUMPS: dict[str, Any] = {
    "int": lambda x: x, "float": lambda x: x, "str": lambda x: x, "bool": lambda x: x, "None": lambda x: x, "Any": lambda x: x,
    "Decimal": str, "Fraction": str, "complex": str,
    "bytes": lambda x: base64.b64encode(x).decode("ascii"), "bytearray": lambda x: base64.b64encode(bytes(x)).decode("ascii"),
    "date": lambda x: x.isoformat(), "time": lambda x: x.isoformat(), "datetime": lambda x: x.isoformat(),
    "timedelta": lambda x: x.total_seconds(), "UUID": str, "IPv4Address": str, "Path": lambda x: x.__fspath__(),
    "Pattern": lambda x: x.pattern,
    "BytesIO": lambda x: base64.b64encode(x.getvalue()).decode("ascii"), "IObytes": lambda x: base64.b64encode(x.read()).decode("ascii"),
    "object": lambda x: x, "LiteralString": lambda x: x, "ByteString": lambda x: base64.b64encode(x).decode("ascii"),
    "PurePath": lambda x: x.__fspath__(), "PurePosixPath": lambda x: x.__fspath__(), "PosixPath": lambda x: x.__fspath__(),
    "PureWindowsPath": lambda x: x.__fspath__(), "PathLike": lambda x: x.__fspath__(),
    "IPv6Address": str, "IPv4Network": str, "IPv6Network": str, "IPv4Interface": str, "IPv6Interface": str,
    "datetime_ts": lambda x: x.timestamp(), "datetime_fmt": lambda x: x.strftime(TS_FORMAT),
    "date_ts": lambda x: dtm.datetime(x.year, x.month, x.day, tzinfo=dtm.timezone.utc).timestamp(),
}
# python type (name) of the values of each scalar kind
VALUE_PYTYPE = {"int": "int", "float": "float", "str": "str", "bool": "bool", "None": "NoneType", "Decimal": "Decimal",
                "Fraction": "Fraction", "complex": "complex", "bytes": "bytes", "bytearray": "bytearray", "date": "date",
                "time": "time", "datetime": "datetime", "timedelta": "timedelta", "UUID": "UUID", "IPv4Address": "IPv4Address",
                "Path": "PosixPath", "Pattern": "Pattern",
                "BytesIO": "BytesIO", "IObytes": "NonSeek", "LiteralString": "str", "ByteString": "bytes", "PurePath": "PurePosixPath", "PurePosixPath": "PurePosixPath", "PosixPath": "PosixPath",
                "PureWindowsPath": "PureWindowsPath", "PathLike": "PosixPath", "IPv6Address": "IPv6Address", "IPv4Network": "IPv4Network",
                "IPv6Network": "IPv6Network", "IPv4Interface": "IPv4Interface", "IPv6Interface": "IPv6Interface",
                "datetime_ts": "datetime_aware", "datetime_fmt": "datetime", "date_ts": "date"}
# which constructor (CTORS key) the loader of a scalar kind applies
KIND_CTOR = {"int": "int", "float": "float", "str": "str", "bool": "bool", "Decimal": "Decimal", "Fraction": "Fraction",
             "complex": "complex", "None": "id", "Any": "id", "bytes": "b64", "bytearray": "b64ba", "date": "date", "time": "time",
             "datetime": "datetime", "timedelta": "timedelta", "UUID": "UUID", "Path": "Path", "IPv4Address": "IPv4Address",
             "Pattern": "re", "BytesIO": "b64bio", "IObytes": "b64bio", "object": "id", "LiteralString": "str", "ByteString": "b64", "PurePath": "PurePath", "PurePosixPath": "PurePosixPath",
             "PosixPath": "PosixPath", "PureWindowsPath": "PureWindowsPath", "PathLike": "Path", "IPv6Address": "IPv6Address",
             "IPv4Network": "IPv4Network", "IPv6Network": "IPv6Network", "IPv4Interface": "IPv4Interface", "IPv6Interface": "IPv6Interface",
             "datetime_ts": "ts", "datetime_fmt": "fmt", "date_ts": "dats"}


def typed_same(a: Any, b: Any) -> bool:
    if type(a) is not type(b):
        return False
    if isinstance(a, re.Pattern):
        return a.pattern == b.pattern and a.flags == b.flags
    if isinstance(a, io.BytesIO):
        return a.getvalue() == b.getvalue()
    if a != a and b != b:  # noqa: PLR0124
        return True
    if isinstance(a, Decimal) and a.is_nan() and b.is_nan():
        return True
    try:
        return bool(a == b)
    except Exception:  # noqa: BLE001
        return False


def token_of(value: Any, k: int) -> Optional[str]:
    """the token whose k-th representative is (typed-)equal to value"""
    for t in TOKENS:
        if t == "obj":
            continue
        if typed_same(rep(t, k), value):
            return t
    return None


def dump_table() -> dict[str, dict[str, str]]:
    """DumpTok[kind][value token] = token of the documented outer form ('?' = outside the universe)"""
    out: dict[str, dict[str, str]] = {}
    for kind, f in DUMPS.items():
        if kind in ("Any", "object"):
            continue
        row = {}
        for t in TOKENS:
            if pytype(rep(t)) != VALUE_PYTYPE[kind]:
                continue
            tok = token_of(f(rep(t, 0)), 0)          # class-level fact, stated on the primary representatives
            row[t] = tok if tok is not None else "?"
        out[kind] = row
    return out


def ctor_table() -> dict[str, dict[str, str]]:
    """CtorTok[ctor][token] = token of the constructed value when it lies in the universe (for all representatives)"""
    out: dict[str, dict[str, str]] = {}
    for c, f in CTORS.items():
        row = {}
        for t in TOKENS:
            if not ctor_ok(c, rep(t)):
                continue
            tok = token_of(f(rep(t, 0)), 0)          # primary representatives
            if tok is not None:
                row[t] = tok
        out[c] = row
    return out


def ctor_ok(ctor: str, value: Any) -> bool:
    try:
        CTORS[ctor](value)
    except Exception:  # noqa: BLE001
        return False
    return True


def pytype(value: Any) -> str:
    if isinstance(value, dtm.datetime) and value.tzinfo is not None:
        return "datetime_aware"       # the values of datetime_by_timestamp(tz=UTC); a naive datetime is not one of them
    return type(value).__name__


def hashable(value: Any) -> bool:
    try:
        hash(value)
    except TypeError:
        return False
    return True


def eq_classes() -> dict[str, int]:
    """==/hash equivalence classes over the first representatives (NaN is its own class)."""
    classes: list[list[str]] = []
    out = {}
    for t in TOKENS:
        v = rep(t)
        placed = False
        if v == v:  # noqa: PLR0124
            for i, cl in enumerate(classes):
                w = rep(cl[0])
                try:
                    # == (and equal hashes where both are hashable: bytearray(b'abc') == b'abc' is an unhashable look-alike)
                    same = bool(v == w) and (not (hashable(v) and hashable(w)) or hash(v) == hash(w))
                except Exception:  # noqa: BLE001
                    same = False
                if same:
                    cl.append(t)
                    out[t] = i
                    placed = True
                    break
        if not placed:
            classes.append([t])
            out[t] = len(classes) - 1
    return out


def check_classes() -> list[str]:
    """Every table entry must be constant on the representatives of a token."""
    problems = []
    for t in TOKENS:
        base = rep(t, 0)
        for k in range(1, n_reps(t)):
            v = rep(t, k)
            if pytype(v) != pytype(base) or hashable(v) != hashable(base):
                problems.append(f"{t}: representative {k} differs in type/hashability")
            for c in CTORS:
                if ctor_ok(c, v) != ctor_ok(c, base):
                    problems.append(f"{t}: representative {k} differs for constructor {c}")
    return problems


def axioms_tla() -> str:
    toks = list(TOKENS)
    eqc = eq_classes()

    def fn(d: dict[str, str]) -> str:
        return "[t \\in Tokens |-> CASE " + " [] ".join(f't = "{k}" -> {v}' for k, v in d.items()) + "]"

    def b(x: bool) -> str:
        return "TRUE" if x else "FALSE"

    lines = [
        "----------------------------------- MODULE PyAxioms -----------------------------------",
        "(* GENERATED by vf/univ.py from CPython itself: facts about Python, not about adaptix.  *)",
        "(* Tokens are classes of concrete Python values on which every documented rule is       *)",
        "(* constant; representatives are listed in vf/univ.py:TOKENS.                           *)",
        "EXTENDS Naturals, Sequences, FiniteSets, TLC",
        "Tokens == {" + ", ".join(f'"{t}"' for t in toks) + "}",
        "PyTypeOf == " + fn({t: f'"{pytype(rep(t))}"' for t in toks}),
        "EqClass == " + fn({t: str(eqc[t]) for t in toks}),
        "Hashable == " + fn({t: b(hashable(rep(t))) for t in toks}),
        "Ctors == {" + ", ".join(f'"{c}"' for c in CTORS) + "}",
        "\\* instances of user subclasses of builtin scalar classes (the documentation speaks about the classes themselves)",
        "SubclassAtoms == {" + ", ".join(f'"{t}"' for t in toks if type(rep(t)).__module__ != "builtins"
                                        and any(b in (str, int, float, bytes) for b in type(rep(t)).__mro__[1:])
                                        and not isinstance(rep(t), enum.Enum)) + "}",
        "StrLikeAtoms == {" + ", ".join(f'"{t}"' for t in toks if isinstance(rep(t), str)) + "}",
        "\\* tokens that are iterable objects although they are neither containers of the data universe nor str / bytes-like",
        "OtherIterableAtoms == {" + ", ".join(f'"{t}"' for t in toks if isinstance(rep(t), collections.abc.Iterable)
                                             and not isinstance(rep(t), (str, bytes, bytearray))) + "}",
    ]
    okset = {c: [t for t in toks if ctor_ok(c, rep(t))] for c in CTORS}
    lines.append("CtorAccepts == [c \\in Ctors |-> CASE " + " [] ".join(
        f'c = "{c}" -> {{' + ", ".join(f'"{t}"' for t in ts) + "}" for c, ts in okset.items()) + "]")
    dt = dump_table()
    lines.append("\\* documented outer form of a value token, as a token ('?' = not in the universe)")
    lines.append("DumpKinds == {" + ", ".join(f'"{k}"' for k in dt) + "}")
    lines.append("DumpTok == [k \\in DumpKinds |-> CASE " + " [] ".join(
        f'k = "{k}" -> (' + (" @@ ".join(f'"{t}" :> "{u}"' for t, u in row.items()) or "<<>>") + ")" for k, row in dt.items()) + "]")
    ct = ctor_table()
    lines.append("\\* value a constructor builds from a token, as a token (defined only where it lies in the universe)")
    lines.append("CtorTok == [c \\in Ctors |-> CASE " + " [] ".join(
        f'c = "{c}" -> (' + (" @@ ".join(f'"{t}" :> "{u}"' for t, u in row.items()) or "<<>>") + ")" for c, row in ct.items()) + "]")
    ev = {t: token_of(rep(t).value, 0) for t in toks if isinstance(rep(t), enum.Enum)}
    lines.append("\\* Enum members among the tokens: the token of member.value")
    lines.append("EnumValueTok == (" + " @@ ".join(f'"{t}" :> "{u}"' for t, u in ev.items()) + ")")
    lines.append("KindCtor == [k \\in DumpKinds \\cup {\"Any\"} |-> CASE " + " [] ".join(f'k = "{k}" -> "{c}"' for k, c in KIND_CTOR.items()) + "]")
    lines.append("ValuePyType == [k \\in DumpKinds |-> CASE " + " [] ".join(f'k = "{k}" -> "{c}"' for k, c in VALUE_PYTYPE.items()) + "]")
    lines.append("=======================================================================================")
    return "\n".join(lines) + "\n"


if __name__ == "__main__":
    import sys
    probs = check_classes()
    print("\n".join(probs) or "classes constant", file=sys.stderr)
    print(axioms_tla())
