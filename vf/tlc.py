"""Driver for TLC: runs a specification from /verif/spec in a scratch directory, collects TLC's own
statistics (states generated / distinct, depth, violated invariants, per-action coverage) and the
JSON records the specification itself emits through ``PrintT(ToJson(..))`` (one line per record)."""
from __future__ import annotations

import json
import os
import re
import shutil
import subprocess
import tempfile
import time
from dataclasses import dataclass, field
from pathlib import Path
from typing import Any, Iterable, Iterator, Optional

SPEC_DIR = Path(__file__).resolve().parent.parent / "spec"
JAR = "/opt/veriftools/tla/tla2tools.jar"
CM_JAR = "/opt/veriftools/tla/CommunityModules-deps.jar"


class MachineryError(Exception):
    """Anything that is a failure of the verification machinery itself (exit code 2)."""


@dataclass
class TLCResult:
    module: str
    cfg: str
    generated: int = 0
    distinct: int = 0
    depth: int = 0
    ok: bool = True                    # no invariant / property violated, no error
    violated: list[str] = field(default_factory=list)
    wall_s: float = 0.0
    out_path: Optional[Path] = None    # full stdout
    coverage: dict[str, int] = field(default_factory=dict)   # action name -> distinct states found through it
    error_text: str = ""
    mode: str = "bfs"

    def records(self) -> Iterator[dict]:
        """JSON records emitted by the spec (lines that are a TLA+ string holding a JSON object)."""
        assert self.out_path is not None
        with open(self.out_path, encoding="utf-8", errors="replace") as f:
            for line in f:
                if line.startswith('"{') or line.startswith('"['):
                    line = line.rstrip("\n")
                    try:
                        yield json.loads(json.loads(line))
                    except Exception as e:  # noqa: BLE001
                        raise MachineryError(f"cannot parse emitted record {line[:200]!r}: {e}") from None

    def counterexample(self) -> str:
        """Text of the error trace printed by TLC (if any)."""
        assert self.out_path is not None
        txt = self.out_path.read_text(errors="replace")
        m = re.search(r"Error: .*?(?=\n\d+ states generated|\Z)", txt, re.S)
        return m.group(0) if m else ""


class Scratch:
    """A scratch directory outside /repo and /verif, removed on exit."""

    def __init__(self) -> None:
        base = os.environ.get("VERIF_SCRATCH_BASE", tempfile.gettempdir())
        self.path = Path(tempfile.mkdtemp(prefix="vf_", dir=base))

    def sub(self, name: str) -> Path:
        p = self.path / name
        p.mkdir(parents=True, exist_ok=True)
        return p

    def cleanup(self) -> None:
        shutil.rmtree(self.path, ignore_errors=True)


def _fmt_const(v: Any) -> str:
    if isinstance(v, bool):
        return "TRUE" if v else "FALSE"
    if isinstance(v, int):
        return str(v)
    if isinstance(v, str):
        return v            # already TLA+ syntax (model value, set expr, ...)
    if isinstance(v, (set, frozenset, list, tuple)):
        return "{" + ", ".join(_fmt_const(x) for x in v) + "}"
    raise TypeError(v)


def make_cfg(*, init: str = "Init", next: str = "Next", spec: Optional[str] = None,
             constants: Optional[dict[str, Any]] = None, invariants: Iterable[str] = (),
             properties: Iterable[str] = (), constraints: Iterable[str] = (),
             action_constraints: Iterable[str] = (), symmetry: Optional[str] = None,
             view: Optional[str] = None, deadlock: bool = False, postcondition: Optional[str] = None) -> str:
    lines = []
    if spec:
        lines.append(f"SPECIFICATION {spec}")
    else:
        lines += [f"INIT {init}", f"NEXT {next}"]
    if constants:
        lines.append("CONSTANTS")
        for k, v in constants.items():
            if isinstance(v, str) and v.startswith("<- "):
                lines.append(f"  {k} {v}")          # substitution by a definition of the module
            else:
                lines.append(f"  {k} = {_fmt_const(v)}")
    for i in invariants:
        lines.append(f"INVARIANT {i}")
    for p in properties:
        lines.append(f"PROPERTY {p}")
    for c in constraints:
        lines.append(f"CONSTRAINT {c}")
    for c in action_constraints:
        lines.append(f"ACTION_CONSTRAINT {c}")
    if symmetry:
        lines.append(f"SYMMETRY {symmetry}")
    if view:
        lines.append(f"VIEW {view}")
    if postcondition:
        lines.append(f"POSTCONDITION {postcondition}")
    lines.append(f"CHECK_DEADLOCK {'TRUE' if deadlock else 'FALSE'}")
    return "\n".join(lines) + "\n"


def run_tlc(scratch: Scratch, module: str, cfg_text: str, *, tag: str = "", workers: int = 16,
            simulate: Optional[dict] = None, timeout_s: int = 900, env: Optional[dict] = None,
            coverage: bool = False, seed: Optional[int] = None, extra_args: Iterable[str] = (),
            heap_gb: int = 8, dfs_queue: bool = False, expect_violation: bool = False,
            extra_files: Optional[dict] = None) -> TLCResult:
    """Run TLC on spec/<module>.tla with the given cfg text.  Returns statistics; raises MachineryError
    on parse errors, crashes and timeouts (never on invariant violations, which are reported)."""
    tag = tag or module
    work = scratch.sub(f"tlc_{tag}")
    for f in SPEC_DIR.glob("*.tla"):
        shutil.copy(f, work / f.name)
    for name, text in (extra_files or {}).items():
        (work / name).write_text(text)
    cfg_path = work / f"{tag}.cfg"
    cfg_path.write_text(cfg_text)
    out_path = work / f"{tag}.out"
    jvm = [f"-Xmx{heap_gb}g", "-XX:+UseParallelGC"]
    if dfs_queue:
        jvm.append("-Dtlc2.tool.queue.IStateQueue=StateDeque")
    cmd = ["java", *jvm, "-cp", f"{JAR}:{CM_JAR}", "tlc2.TLC", "-metadir", str(work / "meta"),
           "-noGenerateSpecTE", "-config", str(cfg_path), "-workers", str(workers)]
    mode = "bfs"
    if simulate:
        mode = "simulate"
        sim = ",".join(f"{k}={v}" for k, v in simulate.items() if k != "depth")
        cmd += ["-simulate", sim] if sim else ["-simulate"]
        if "depth" in simulate:
            cmd += ["-depth", str(simulate["depth"])]
    if seed is not None:
        cmd += ["-seed", str(seed)]
    if coverage:
        cmd += ["-coverage", "1"]
    cmd += list(extra_args)
    cmd.append(module)
    t0 = time.time()
    full_env = dict(os.environ)
    full_env.pop("JAVA_TOOL_OPTIONS", None)
    if env:
        full_env.update(env)
    with open(out_path, "w") as out:
        try:
            proc = subprocess.run(cmd, cwd=work, stdout=out, stderr=subprocess.STDOUT, timeout=timeout_s,
                                  env=full_env, check=False)
        except subprocess.TimeoutExpired:
            raise MachineryError(f"TLC timed out after {timeout_s}s on {tag}") from None
    res = TLCResult(module=module, cfg=cfg_text, wall_s=time.time() - t0, out_path=out_path, mode=mode)
    tail = _read_nonrecord_text(out_path)
    m = re.search(r"(\d+) states generated, (\d+) distinct states found", tail)
    if m:
        res.generated, res.distinct = int(m.group(1)), int(m.group(2))
    m = re.search(r"The depth of the complete state graph search is (\d+)", tail)
    if m:
        res.depth = int(m.group(1))
    for m in re.finditer(r"Invariant (\S+) is violated", tail):
        res.violated.append(m.group(1))
    for m in re.finditer(r"(?:Action property|Temporal properties were|Property) ?(\S*) (?:is )?violated", tail):
        res.violated.append(m.group(1) or "temporal")
    if re.search(r"Deadlock reached", tail):
        res.violated.append("Deadlock")
    if coverage:
        for m in re.finditer(r"<(\w+) line \d+, col \d+ to line \d+, col \d+ of module \w+>: (\d+):(\d+)", tail):
            res.coverage[m.group(1)] = res.coverage.get(m.group(1), 0) + int(m.group(2))
    res.ok = not res.violated
    hard_error = re.search(r"(Parsing or semantic analysis failed|\*\*\* Errors|TLC threw an unexpected exception|"
                           r"Error: (?!Invariant|Deadlock|Action property|Temporal|The behavior|The following behavior)[^\n]*)", tail)
    if simulate is None and not res.violated and not re.search(r"Model checking completed. No error has been found", tail):
        hard_error = hard_error or re.search(r".+", "did not complete")
    if hard_error and not res.violated:
        res.error_text = tail[-3000:]
        raise MachineryError(f"TLC failed on {tag} (exit {proc.returncode}): {hard_error.group(0)[:300]}\n{tail[-1500:]}")
    if res.violated and not expect_violation:
        res.error_text = res.counterexample()[:6000]
    return res


def _read_nonrecord_text(path: Path) -> str:
    parts = []
    size = 0
    with open(path, encoding="utf-8", errors="replace") as f:
        for line in f:
            if line.startswith('"{') or line.startswith('"['):
                continue
            parts.append(line)
            size += len(line)
            if size > 20_000_000:
                parts = parts[-20000:]
                size = sum(len(x) for x in parts)
    return "".join(parts)


def sany(module_path: Path) -> tuple[bool, str]:
    proc = subprocess.run(["java", "-cp", f"{JAR}:{CM_JAR}", "tla2sany.SANY", module_path.name],
                          cwd=module_path.parent, capture_output=True, text=True, timeout=120, check=False)
    out = proc.stdout + proc.stderr
    ok = proc.returncode == 0 and "*** Errors" not in out and "Fatal errors" not in out and "Could not" not in out
    return ok, out
