"""A cooperative baton scheduler for real threads (property C12).  Exactly one registered thread runs at a time; control
changes hands only at YIELD POINTS, which are the shared-state operations of the retort themselves (the instrumented
_loader_cache / _call_cache dictionaries, FuncWrapper.set_func, the entry of a produced loader) - so a schedule is a
sequence of decisions in the alphabet of spec/Conc.tla and survives refactoring of the code between them."""
from __future__ import annotations

import sys
import threading
from typing import Any, Callable, Optional


class Deadlock(Exception):
    pass


class Sched:
    def __init__(self, decisions: dict[int, str], timeout: float = 20.0):
        self.decisions = decisions            # global yield index -> thread that must run next
        self.sems: dict[str, threading.Semaphore] = {}
        self.alive: list[str] = []
        self.current: Optional[str] = None
        self.step = 0
        self.events: list[dict] = []
        self.trace: list[tuple[int, str, list[str]]] = []   # (step, thread that was running, runnable threads)
        self.results: dict[str, Any] = {}
        self.timeout = timeout
        self.lock = threading.Lock()
        self.local = threading.local()
        self.line_tracer = None               # set by make_line_tracer(): preemption at source lines of the library

    # ---- called from worker threads --------------------------------------------------------------
    def me(self) -> Optional[str]:
        return getattr(self.local, "name", None)

    def log(self, op: str, **info) -> None:
        t = self.me()
        if t is not None:
            self.events.append({"t": t, "op": op, **info})

    def yield_point(self, op: str, **info) -> None:
        t = self.me()
        if t is None:
            return                          # not a scheduled thread (e.g. the main thread preparing things)
        self.events.append({"t": t, "op": op, **info})
        k = self.step
        self.step += 1
        runnable = list(self.alive)
        self.trace.append((k, t, runnable))
        nxt = self.decisions.get(k, t)
        if nxt not in runnable:
            nxt = t
        if nxt != t:
            self.current = nxt
            self.sems[nxt].release()
            if not self.sems[t].acquire(timeout=self.timeout):
                raise Deadlock(f"{t} was never rescheduled")

    def line_point(self) -> None:
        """a preemption point that is not a shared-state operation (a source line of the library reached under sys.settrace):
        counted as a step, not logged as an event"""
        t = self.me()
        if t is None or getattr(self.local, "atomic", 0):
            return            # inside a shared-state operation (its __hash__ / __eq__ calls are library code too): one atomic step
        k = self.step
        self.step += 1
        nxt = self.decisions.get(k)
        if nxt is None or nxt == t or nxt not in self.alive:
            return
        self.trace.append((k, t, list(self.alive)))
        self.current = nxt
        self.sems[nxt].release()
        if not self.sems[t].acquire(timeout=self.timeout):
            raise Deadlock(f"{t} was never rescheduled")

    def _finish(self, t: str) -> None:
        self.alive.remove(t)
        if self.alive:
            nxt = self.alive[0]
            self.current = nxt
            self.sems[nxt].release()

    # ---- driver ------------------------------------------------------------------------------------
    def run(self, programs: dict[str, Callable[[], Any]]) -> None:
        names = list(programs)
        self.alive = list(names)
        threads = []
        for n in names:
            self.sems[n] = threading.Semaphore(0)

        def body(n=None):
            self.local.name = n
            self.sems[n].acquire()
            try:
                if self.line_tracer is not None:
                    sys.settrace(self.line_tracer)
                try:
                    self.results[n] = ("ok", programs[n]())
                finally:
                    sys.settrace(None)
            except BaseException as e:  # noqa: BLE001
                self.results[n] = ("exc", e)
            finally:
                self.events.append({"t": n, "op": "thread_end", "ok": self.results[n][0] == "ok"})
                self._finish(n)
        for n in names:
            th = threading.Thread(target=body, kwargs={"n": n}, daemon=True)
            th.start()
            threads.append(th)
        first = self.decisions.get(-1, names[0])
        self.current = first
        self.sems[first].release()
        for th in threads:
            th.join(self.timeout)
            if th.is_alive():
                raise Deadlock("a thread did not finish: all threads blocked or lost baton")


def make_line_tracer(sched: Sched, path_part: str = "adaptix"):
    """sys.settrace function: every executed line of a source file whose path contains path_part (incl. generated code) is a
    preemption point of the scheduler"""
    def local(frame, event, arg):
        if event == "line":
            sched.line_point()
        return local

    def tracer(frame, event, arg):
        if event == "call" and path_part in frame.f_code.co_filename and "/vf/" not in frame.f_code.co_filename:
            return local
        return None
    return tracer


class SchedDict(dict):
    """a dict whose operations are yield points; remembers which thread stored each key"""

    def __init__(self, sched: Sched, name: str, describe: Callable[[Any], dict]):
        super().__init__()
        self._s, self._n, self._d = sched, name, describe
        self.creator: dict = {}

    def _enter(self):
        self._s.local.atomic = getattr(self._s.local, "atomic", 0) + 1

    def _exit(self):
        self._s.local.atomic -= 1

    def __contains__(self, key):
        self._s.yield_point(f"{self._n}_contains", **self._d(key))
        self._enter()
        try:
            hit = dict.__contains__(self, key)
            self._s.log(f"{self._n}_contains_result", hit=hit, creator=self.creator.get(key) if hit else None, **self._d(key))
        finally:
            self._exit()
        return hit

    def __getitem__(self, key):
        self._s.yield_point(f"{self._n}_get", **self._d(key))
        self._enter()
        try:
            try:
                v = dict.__getitem__(self, key)
            except KeyError:
                self._s.log(f"{self._n}_get_result", hit=False, **self._d(key))
                raise
            self._s.log(f"{self._n}_get_result", hit=True, creator=self.creator.get(key), **self._d(key))
        finally:
            self._exit()
        return v

    def __setitem__(self, key, value):
        self._s.yield_point(f"{self._n}_set", **self._d(key))
        self._enter()
        try:
            dict.__setitem__(self, key, value)
            self.creator[key] = self._s.me()
        finally:
            self._exit()
