"""code -> spec: run a Trace_*.tla total monitor over an ndjson trace recorded from the implementation."""
from __future__ import annotations

import json
from pathlib import Path
from typing import Iterable

from .core import Ctx
from .tlc import MachineryError, make_cfg, run_tlc


def validate(ctx: Ctx, module: str, lines: list[dict], *, tag: str = "", timeout_s: int = 1800,
             init: str = "TInit", next: str = "TNext", constants=None) -> list[dict]:
    """Returns the verdict records of the failing lines: [{l, bad:[clauses], exp:..}].  Raises MachineryError
    if the monitor did not consume the whole trace."""
    tag = tag or module
    work = ctx.scratch.sub(f"trace_{tag}")
    trace_file = work / "trace.ndjson"
    with open(trace_file, "w") as f:
        for ln in lines:
            f.write(json.dumps(ln) + "\n")
    cfg = make_cfg(init=init, next=next, invariants=["Report"], postcondition="AllConsumed", constants=constants)
    res = run_tlc(ctx.scratch, module, cfg, tag=f"T_{tag}", workers=1, timeout_s=timeout_s,
                  env={"TRACE_FILE": str(trace_file)})
    ctx.add_tlc(res, f"trace monitor over {len(lines)} recorded events")
    if not res.ok:
        raise MachineryError(f"trace monitor {module} failed: {res.violated} {res.error_text[:2000]}")
    if res.distinct != len(lines) + 1:
        raise MachineryError(f"trace monitor {module} consumed {res.distinct - 1} of {len(lines)} lines")
    ctx.trace_lines += len(lines)
    return [r for r in res.records() if isinstance(r, dict) and "bad" in r]
