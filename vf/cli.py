"""./check <Cxx> [--tier quick|thorough] [--replay path]   |   ./check --setup   |   ./check --selftest [name]"""
from __future__ import annotations

import argparse
import importlib
import json
import os
import sys
import traceback

from .core import ROOT, Ctx
from .tlc import MachineryError


def main(argv=None) -> int:
    ap = argparse.ArgumentParser()
    ap.add_argument("pid", nargs="?")
    ap.add_argument("--tier", default=None)
    ap.add_argument("--replay", default=None)
    ap.add_argument("--setup", action="store_true")
    ap.add_argument("--selftest", nargs="?", const="all", default=None)
    args = ap.parse_args(argv)
    try:
        if args.setup:
            from . import setup
            return setup.main()
        if args.selftest:
            from . import selftest
            return selftest.main(args.selftest)
        if not args.pid:
            ap.error("property id required")
        pid = args.pid.upper()
        mod = importlib.import_module(f"vf.props.{pid.lower()}")
        if args.replay:
            return mod.replay(args.replay)
        tier = os.environ.get("VERIF_TIER") or args.tier or "quick"
        if tier not in ("quick", "thorough"):
            tier = "quick"
        seed = int(os.environ.get("VERIF_SEED", "0") or 0)
        ctx = Ctx(pid, tier, seed)
        try:
            mod.run(ctx)
        except BaseException:
            ctx.scratch.cleanup()
            raise
        return ctx.finish()
    except MachineryError as e:
        print(f"MACHINERY: {e}", file=sys.stderr)
        return 2
    except SystemExit:
        raise
    except BaseException:  # noqa: BLE001
        traceback.print_exc()
        print("MACHINERY: unexpected exception in the verification machinery", file=sys.stderr)
        return 2


if __name__ == "__main__":
    sys.exit(main())
