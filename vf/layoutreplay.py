"""gamma / alpha and the replay engine for Layout.tla (C03 and, through other model kinds / name dictionaries /
instrumented constructors, C05 C06 C08 C17 C19 C20): every TLC-enumerated program (shape, name_mapping overlays) is built
with the real name_mapping(...) on a real model class, its creation verdict compared, and every probe input / test
object of the program is run through the generated loader / dumper in the three debug modes."""
from __future__ import annotations

import copy
import dataclasses
import json
import random
import re
import traceback
import zlib
from collections import defaultdict
from decimal import Decimal
from typing import Any, Optional

from .core import Ctx, stable_hash
from .par import pmap
from .tlc import MachineryError, make_cfg, run_tlc

INVS = ["OwnInputLoads", "LoaderDumperAgree", "OmitDefaultRoundTrip", "PathsDisjoint", "MapBeatsStyle", "SkipBeatsOnly",
        "ErrorsOnlyWhenNotOk", "EmitCase"]

# ---- names (character level: outside the model) --------------------------------------------------------
BENIGN = {"k1": "k1", "k2": "k2", "n": "nest", "u1": "unk1", "u2": "unk2",
          "a": "a", "b": "b", "c": "c", "d": "d", "rest": "rest", "p": "p"}
REVERSED_NAMES = {"a": "zed", "b": "mid", "c": "alpha", "d": "x", "rest": "a0"}
STYLES = {"upper": ("UPPER_SNAKE", "_", str.upper, str.upper), "camel": ("CAMEL", "", str.lower, str.title)}


def _styles_from_examples() -> dict:
    """every NameStyle, read off the DOCUMENTED example that is the member's value ('camel_Snake', 'Pascal-Kebab', 'UPPER.DOT',
    'lowercase'): the separator is the character after the first word, the case of the first / the other words is the case of
    the example's first / second word - not taken from the conversion table of the implementation"""
    from adaptix import NameStyle
    case_of = lambda w: str.lower if w.islower() else str.upper if w.isupper() else str.title  # noqa: E731
    out = {}
    for st in NameStyle:
        ex = st.value
        first = next(w for w in ("lower", "camel", "Pascal", "UPPER") if ex.startswith(w))
        rest = ex[len(first):]
        sep = rest[0] if not rest[0].isalpha() else ""
        out[st.name] = (st.name, sep, case_of(first), case_of(rest[len(sep):]))
    return out


ALL_STYLES: dict = {}
OTHER_STYLE = {"name": "PASCAL_KEBAB"}      # the style the model's token "other" stands for in the current program


def style_of(token: str):
    if token != "other":
        return STYLES[token]
    if not ALL_STYLES:
        ALL_STYLES.update(_styles_from_examples())
    return ALL_STYLES[OTHER_STYLE["name"]]


def choose_other_style(h: int) -> None:
    if not ALL_STYLES:
        ALL_STYLES.update(_styles_from_examples())
    names = sorted(ALL_STYLES)
    OTHER_STYLE["name"] = names[h % len(names)]


def fresh_list() -> list:
    return []


class Names:
    """dictionary from name / key tokens to strings (benign by default; C19 substitutes hostile ones)"""

    def __init__(self, table: Optional[dict] = None):
        self.table = dict(BENIGN)
        if table:
            self.table.update(table)

    dstyle = 0          # how gamma writes the declared defaults: 0 = truthy values (7, 'dflt'), 1 = None / falsy values,
    kindname = None     # 2 = factories (int, str, list)

    def style(self) -> int:
        if self.kindname == "kwargs":
            return 0          # the **kwargs class of the ExtraKwargs programs is written by hand with plain defaults
        if self.dstyle == 2 and self.kindname == "namedtuple":
            return 0          # no default factories in this kind (SQLAlchemy: a callable column default)
        return self.dstyle

    def default(self, ty: str) -> Any:
        """the declared default of an optional field of logical type ty (spec: DflV)"""
        st = self.style()
        if st == 0:
            return DEFAULTS[ty]
        if st == 1:
            if (self.kindname or "").startswith("sqlalchemy"):
                return {"int": 0, "str": "", "any": None, "dec": Decimal(0)}[ty]          # mapped_column(default=None) means "no default" in SQLAlchemy
            return {"int": None, "str": "", "any": None, "dec": None}[ty]
        return {"int": 0, "str": "", "any": [], "dec": Decimal(0)}[ty] if ty != "any" else []

    user_factory = False    # dstyle 2: the factory of an `any` field is a user function instead of the builtin `list` (no literal form)

    def factory(self, ty: str):
        if self.style() != 2:
            return None
        if ty == "any" and self.user_factory:
            return fresh_list
        return {"int": int, "str": str, "any": list, "dec": Decimal}[ty]

    def falsy(self, ty: str) -> Any:
        """a well-typed falsy value that is not the declared default (spec: FalsyV)"""
        st = self.style()
        if st == 0:
            return {"int": 0, "str": "", "any": None, "dec": Decimal(0)}[ty]
        if st == 1:
            if (self.kindname or "").startswith("sqlalchemy"):
                return {"int": None, "str": None, "any": [], "dec": None}[ty]
            return {"int": 0, "str": None, "any": [], "dec": Decimal(0)}[ty]
        return None

    def pytype(self, ty: str, req: bool) -> Any:
        if self.style() != 0 and ty != "any" and not req:
            return Optional[PYTYPES[ty]]
        return PYTYPES[ty]

    def word(self, w: str) -> str:
        return self.table.get(w, w)

    def field(self, fid: dict) -> str:
        return "_" * fid["lead"] + "_".join(self.word(w) for w in fid["w"]) + "_" * fid["us"]

    def key(self, k: dict) -> Any:
        g = k["g"]
        if g == "idx":
            return k["i"]
        if g == "key":
            return self.table.get(k["k"], k["k"])
        if g == "gen":
            fid = k["id"]
            if k["style"] == "none":
                return self.field(fid)
            _, sep, first, other = style_of(k["style"])
            words = [self.word(w) for w in fid["w"]]
            body = sep.join([first(words[0])] + [other(w) for w in words[1:]])
            return "_" * fid["lead"] + body + "_" * fid["us"]
        raise ValueError(g)


# ---- model classes (gamma) -------------------------------------------------------------------------
# "dec": a field type whose dumped form is not the value itself (Decimal <-> str): object side and data side are rendered differently
DEFAULTS = {"int": 7, "str": "dflt", "any": "anydflt", "dec": Decimal("7.5")}
PYTYPES = {"int": int, "str": str, "any": Any, "dec": Decimal}


def to_data(v: Any) -> Any:
    """the documented dumped form of an object-side value"""
    return str(v) if isinstance(v, Decimal) else v


def good_value(shape, i: int, names: "Optional[Names]" = None) -> Any:
    ty = shape[i - 1]["ty"]
    return {"int": 100 + i, "str": f"v{i}", "any": {(names.table["u1"] if names else "unk1"): "x1"}, "dec": Decimal(f"{100 + i}.25")}[ty]


def bad_value(shape, i: int) -> Any:
    ty = shape[i - 1]["ty"]
    return {"int": "bad", "str": 5, "any": "anybad", "dec": "bad"}[ty]


def derived_value(shape, i: int) -> Any:
    """what the constructor of the model computes for the output-only field i (spec: DerivedV)"""
    return {"int": 900 + i, "str": f"derived{i}", "any": "anyderived", "dec": Decimal(f"{900 + i}.5")}[shape[i - 1]["ty"]]


def out_only(f: dict) -> bool:
    return f.get("dir", "io") == "out"


def make_dataclass_model(shape, names: Names, ctor_log: Optional[list] = None):
    fields = []
    derived = {names.field(f["id"]): derived_value(shape, i) for i, f in enumerate(shape, start=1) if out_only(f)}
    for f in shape:
        n = names.field(f["id"])
        if out_only(f):
            fields.append((n, PYTYPES[f["ty"]], dataclasses.field(init=False)))
        elif f["req"]:
            fields.append((n, PYTYPES[f["ty"]]))
        else:
            fac = names.factory(f["ty"])
            fields.append((n, names.pytype(f["ty"], False), dataclasses.field(default_factory=fac) if fac else dataclasses.field(default=names.default(f["ty"]))))
    ns = {}
    if ctor_log is not None or derived:
        def __post_init__(self):
            if ctor_log is not None:
                ctor_log.append("post_init")
            for k, v in derived.items():
                setattr(self, k, v)
        ns["__post_init__"] = __post_init__
    return dataclasses.make_dataclass("Model", fields, kw_only=True, namespace=ns)


def make_kwargs_model(shape, names: Names):
    """a class with **kwargs in its __init__ (ExtraKwargs)"""
    params, body = [], ["    self.kwargs = kwargs"]
    for f in shape:
        n = names.field(f["id"])
        ann = {"int": "int", "str": "str", "any": "object", "dec": "Decimal"}[f["ty"]]
        params.append(f"{n}: {ann}" if f["req"] else f"{n}: {ann} = {names.default(f['ty'])!r}")
        body.append(f"    self.{n} = {n}")
    src = "class Model:\n  def __init__(self, *, " + ", ".join(params) + ", **kwargs):\n" + "\n".join("  " + b for b in body) + "\n"
    ns: dict = {"Decimal": Decimal}
    exec(src, ns)  # noqa: S102
    return ns["Model"]


# ---- recipe (gamma) --------------------------------------------------------------------------------
def render_spec(spec: dict, names: Names, rng: random.Random):
    if spec["t"] == "none":
        return None
    path = [(... if k["g"] == "ell" else names.key(k)) for k in spec["p"]]
    if len(path) == 1 and rng.random() < 0.6:
        return path[0]
    return tuple(path) if rng.random() < 0.5 else list(path)


# c01 / c06 switch off, for their runs on other model kinds, the two spellings whose TypedDict behaviour is a recorded finding of C17
# (bare type predicates on Required[...] keys; field names whose alphabetical order differs from their order of definition)
TYPE_PRED_ALLOWED = {"on": True}
TYPE_PRED_USED: list = []      # set when a recipe selects fields by a bare type predicate (int / str)


def sel_pred(sel_ids: list, shape, names: Names, rng: random.Random, model=None):
    """a predicate that selects exactly the fields with these ids (among the fields of the shape)"""
    from adaptix import P
    ns = [names.field(i) for i in sel_ids]
    all_ns = [names.field(f["id"]) for f in shape]
    if len(ns) == 1:
        n = ns[0]
        choice = rng.randrange(3)
        if choice == 0 or not n.isidentifier():
            return n if n.isidentifier() else re.compile(re.escape(n))
        if choice == 1:
            return P[n]
        return P[model][n] if model is not None else getattr(P, n)
    tys = {f["ty"] for f in shape if f["id"] in sel_ids}
    if len(tys) == 1 and {names.field(f["id"]) for f in shape if f["ty"] in tys} == set(ns) and "any" not in tys and names.dstyle == 0 and rng.random() < 0.5 and TYPE_PRED_ALLOWED["on"]:
        TYPE_PRED_USED.append(1)
        return PYTYPES[tys.pop()]
    if rng.random() < 0.5:
        return "|".join(re.escape(n) for n in ns)
    return P[tuple(ns)]


def build_overlay(ov: dict, shape, names: Names, rng: random.Random, model, helpers: dict, bind=None):
    from adaptix import ExtraForbid, ExtraKwargs, ExtraSkip, NameStyle, name_mapping
    kw: dict = {}
    if ov["map"]["o"]:
        entries = ov["map"]["v"]
        as_dict = all(len(e["sel"]["s"]) == 1 for e in entries) and len({json.dumps(e["sel"]["s"]) for e in entries}) == len(entries) \
            and all(names.field(e["sel"]["s"][0]).isidentifier() for e in entries) and rng.random() < 0.5
        if as_dict:
            kw["map"] = {names.field(e["sel"]["s"][0]): render_spec(e["spec"], names, rng) for e in entries}
        else:
            lst = []
            for e in entries:
                spec = render_spec(e["spec"], names, rng)
                if len(e["sel"]["s"]) == 1 and names.field(e["sel"]["s"][0]).isidentifier() and rng.random() < 0.3:
                    lst.append({names.field(e["sel"]["s"][0]): spec})
                elif rng.random() < 0.25:
                    lst.append((sel_pred(e["sel"]["s"], shape, names, rng, model), (lambda sp: (lambda shape_, field_: sp))(spec)))
                else:
                    lst.append((sel_pred(e["sel"]["s"], shape, names, rng, model), spec))
            kw["map"] = lst
    if ov["style"]["o"]:
        kw["name_style"] = None if ov["style"]["v"] == "none" else getattr(NameStyle, style_of(ov["style"]["v"])[0])
    if ov["trim"]["o"]:
        kw["trim_trailing_underscore"] = ov["trim"]["v"]
    for mname, kname in (("skip", "skip"), ("only", "only"), ("omit", "omit_default")):
        if ov[mname]["o"]:
            sel = ov[mname]["v"]
            if sel["any"]:
                kw[kname] = True if mname == "omit" else P_ANY()
            else:
                ns = [names.field(i) for i in sel["s"]]
                if mname == "omit" and not ns:
                    kw[kname] = False
                elif len(ns) == 1 and rng.random() < 0.5:
                    kw[kname] = sel_pred(sel["s"], shape, names, rng, model)
                else:
                    kw[kname] = [sel_pred([i], shape, names, rng, model) for i in sel["s"]]
    if ov["aslist"]["o"]:
        kw["as_list"] = ov["aslist"]["v"]
    if ov["extra_in"]["o"]:
        x = ov["extra_in"]["v"]
        kw["extra_in"] = {"skip": ExtraSkip(), "forbid": ExtraForbid(), "kwargs": ExtraKwargs(),
                          "target": names.field(shape[x["f"] - 1]["id"]) if x["p"] == "target" else None,
                          "saturate": helpers["saturator"]}[x["p"]]
    if ov["extra_out"]["o"]:
        x = ov["extra_out"]["v"]
        kw["extra_out"] = {"skip": ExtraSkip(), "target": names.field(shape[x["f"] - 1]["id"]) if x["p"] == "target" else None,
                           "extract": helpers["extractor"]}[x["p"]]
    if bind is not None:
        return name_mapping(bind, **kw)
    if rng.random() < 0.4:
        return name_mapping(model, **kw)
    return name_mapping(**kw)


def P_ANY():
    from adaptix import P
    return P.ANY


# ---- data (gamma) ------------------------------------------------------------------------------------
class _OddIndex:
    def __getitem__(self, key):
        raise IndexError(key)


class _OddKey:
    def __getitem__(self, key):
        raise KeyError(key)

    def get(self, key, default=None):
        raise KeyError(key)


ODD_OBJECTS = [lambda: re.match("(?P<zz>x)", "x"), _OddIndex, _OddKey]
ABSENT = type("Absent", (), {"__repr__": lambda self: "<absent>"})()


def render_data(d: dict, shape, names: Names, side: str = "data") -> Any:
    """side = "data": the external representation (probe inputs, expected dumps); "obj": the value a field of the object holds"""
    c = d["c"]
    if c == "atom":
        a = d["a"]
        conv = to_data if side == "data" else (lambda v: v)
        if a == "good":
            return conv(good_value(shape, d["f"], names))
        if a == "bad":
            return bad_value(shape, d["f"])
        if a == "none":
            return None
        if a == "xtra":
            return f"x{d['f']}"
        if a == "dfl":
            return conv(names.default(shape[d["f"] - 1]["ty"]))
        if a == "absent":
            return ABSENT
        if a == "derived":
            return conv(derived_value(shape, d["f"]))
        if a == "odd":
            return ODD_OBJECTS[len(shape) % len(ODD_OBJECTS)]()
        if a == "falsy":
            return conv(names.falsy(shape[d["f"] - 1]["ty"]))
        raise ValueError(a)
    if c == "dict":
        return {names.key(k): render_data(v, shape, names, side) for k, v in zip(d["ks"], d["vs"])}
    return [render_data(x, shape, names, side) for x in d["xs"]]


def with_missing(x: Any) -> Any:
    """the same datum with every dict node an instance of a dict subclass that defines __missing__ (collections.defaultdict): a key
    that is absent is absent - `key in d` is False, .get() misses - although d[key] would fabricate a value and insert it"""
    from collections import defaultdict
    if isinstance(x, dict):
        return defaultdict(dict, {k: with_missing(v) for k, v in x.items()})
    if isinstance(x, list):
        return [with_missing(v) for v in x]
    return x


def plain_of(x: Any) -> Any:
    if isinstance(x, dict):
        return {k: plain_of(v) for k, v in x.items()}
    if isinstance(x, list):
        return [plain_of(v) for v in x]
    return x


def none_leaf_fields(d: dict, paths: list) -> list:
    """indices (1-based) of the fields whose leaf, found by following the field's path through the abstract datum, is the value None"""
    out = []
    for i, path in enumerate(paths, start=1):
        cur = d
        for k in path:
            if cur["c"] == "dict":
                hit = [v for kk, v in zip(cur["ks"], cur["vs"]) if kk == k]
                cur = hit[0] if hit else None
            elif cur["c"] == "list" and k["g"] == "idx" and k["i"] < len(cur["xs"]):
                cur = cur["xs"][k["i"]]
            else:
                cur = None
            if cur is None:
                break
        if path and cur is not None and cur["c"] == "atom" and cur["a"] == "none":
            out.append(i)
    return out


def has_bad(d: dict) -> bool:
    if d["c"] == "atom":
        return d["a"] == "bad"
    return any(has_bad(x) for x in d.get("vs", []) + d.get("xs", []))


def prune_extra(m: Any) -> Any:
    """drop entries that hold only (recursively) empty mappings: a nested node without unknown keys is not unknown data"""
    # (this used to drop empty nested mappings on BOTH sides of the comparison, which hid that the loader delivered {'nest': {}} for
    #  a nested node without unknown keys - DESIGN.md section 0.7; the collected data is now compared as it is)
    return dict(m) if isinstance(m, dict) else m


# ---- alpha on model load errors -------------------------------------------------------------------------
def flat_model_errors(exc: BaseException, prefix: tuple = ()):
    from adaptix.load_error import (
        ExcludedTypeLoadError, ExtraFieldsLoadError, ExtraItemsLoadError, LoadError, NoRequiredFieldsLoadError,
        NoRequiredItemsLoadError, TypeLoadError, UnionLoadError,
    )
    from adaptix.struct_trail import get_trail
    trail = prefix + tuple(get_trail(exc))
    if isinstance(exc, BaseExceptionGroup) and not isinstance(exc, UnionLoadError):
        out = []
        for sub in exc.exceptions:
            out += flat_model_errors(sub, trail)
        return out
    if isinstance(exc, NoRequiredFieldsLoadError):
        return [(trail, "NoRequiredFields", frozenset(exc.fields))]
    if isinstance(exc, ExtraFieldsLoadError):
        return [(trail, "ExtraFields", frozenset(exc.fields))]
    if isinstance(exc, NoRequiredItemsLoadError):
        return [(trail, "NoRequiredItems", frozenset())]
    if isinstance(exc, ExtraItemsLoadError):
        return [(trail, "ExtraItems", frozenset())]
    if isinstance(exc, LoadError):
        return [(trail, "LoadError:" + type(exc).__name__, frozenset())]
    return [(trail, "FOREIGN:" + type(exc).__name__, frozenset())]


def model_errs(errs: list, names: Names) -> set:
    out = set()
    for e in errs:
        trail = tuple(names.key(k) for k in e["trail"])
        keys = frozenset(names.key(k) for k in e["keys"])
        out.add((trail, e["kind"], keys))
    return out


def err_matches(real: tuple, model: tuple) -> bool:
    rt, rk, rkeys = real
    mt, mk, mkeys = model
    if rt != mt:
        return False
    if mk in ("Type", "Leaf"):
        return rk.startswith("LoadError:")           # any LoadError located at that node
    return rk == mk and rkeys == mkeys


# ---- one program ---------------------------------------------------------------------------------------
def program_features(case: dict) -> dict:
    sch = case["sch"]
    ps = case["paths_in"]
    return {"aslist": sch["aslist"], "style": sch["style"], "trim": sch["trim"], "extra_in": sch["extra_in"]["p"],
            "extra_out": sch["extra_out"]["p"], "nested": any(len(p) > 1 for p in ps), "list_step": any(k["g"] == "idx" for p in ps for k in p),
            "n_overlays": len(case["ovs"]), "skipped": sum(1 for p in ps if not p),
            # an output-only field defined before a constructor parameter: the two directions number the positions differently
            "out_only_before_input_field": any(out_only(f) and any(not out_only(g) for g in case["shape"][i + 1:]) for i, f in enumerate(case["shape"])),
            "out_only": any(out_only(f) for f in case["shape"])}


STRICT_EXC = [KeyError, KeyError, AttributeError, ValueError, TypeError, LookupError]


def strict_dumpers(exc_cls):
    """user supplied field dumpers that refuse ill-typed values by raising exc_cls"""
    from adaptix import dumper

    def d_int(v):
        if type(v) is not int:
            raise exc_cls(v)
        return v

    def d_str(v):
        if type(v) is not str:
            raise exc_cls(v)
        return v
    return [dumper(int, d_int), dumper(str, d_str)]


def strict_loaders(exc_cls):
    """user supplied field loaders that refuse ill-typed values by raising exc_cls (not a LoadError)"""
    from adaptix import loader

    def l_int(v):
        if type(v) is not int:
            raise exc_cls(v)
        return v

    def l_str(v):
        if type(v) is not str:
            raise exc_cls(v)
        return v
    return [loader(int, l_int), loader(str, l_str)]


HEAP = {"on": False}     # set by c20 before the workers fork: record heap observations of successful loads / dumps


def _heap_obs(out: dict, func, make_arg, asis_of, first, label: str, case: dict) -> None:
    """property C20: call func a second time on the same argument and record identities (judged by spec/Trace_Heap.tla)"""
    from .props.c20 import containers, retort_reachable, snapshot
    arg = make_arg()
    before = snapshot(arg)
    r1 = func(arg)
    r2 = func(arg)
    after = snapshot(arg)
    arg_c, c1, c2 = containers(arg), containers(r1), containers(r2)
    asis_c: dict = {}
    for o in asis_of(arg, r1) + asis_of(arg, r2):
        containers(o, asis_c)
    asis_c = {i: o for i, o in asis_c.items() if i in arg_c}
    rr = retort_reachable(func)
    num: dict = {}

    def n(ids):
        return [num.setdefault(i, len(num) + 1) for i in ids]
    try:
        equal = (r1 == r2) if type(r1).__eq__ is not object.__eq__ else (vars(r1) == vars(r2))
    except Exception:  # noqa: BLE001
        equal = repr(r1) == repr(r2)
    obs = {"arg": n(arg_c), "retort": n(rr), "asis": n(asis_c), "res1": n(c1), "res2": n(c2), "arg_same": before == after,
           "repeat_equal": bool(equal)}
    key = json.dumps(obs, sort_keys=True)
    slot = out["heap"].setdefault(key, {"obs": obs, "n": 0, "label": label, "case": {"shape": case["shape"], "ovs": case["ovs"]},
                                        "detail": f"arg={arg!r} res1={r1!r}"[:400]})
    slot["n"] += 1


def run_program(case: dict, seed: int, names: Names, out: dict, kind=None) -> None:
    """kind = None: the dataclass models of C03; else a vf.kinds.Kind (property C17): the same program on another model kind"""
    from adaptix import DebugTrail, ProviderNotFoundError, Retort
    from adaptix.load_error import LoadError
    from .kinds import MISSING
    shape = case["shape"]
    rng = random.Random(f"{seed}:{stable_hash([case['shape'], case['ovs']])}")
    feats = program_features(case)
    kwargs_prog = case["sch"]["extra_in"]["p"] == "kwargs"
    ctor_log: list = []
    sat_log: list = []
    in_used: list = []
    names.kindname = "kwargs" if kwargs_prog and kind is None else None
    if kind is None:
        model_in = make_kwargs_model(shape, names) if kwargs_prog else make_dataclass_model(shape, names, ctor_log)
        model_out = make_dataclass_model(shape, names)
        rd = getattr
        construct = lambda cls, vals: cls(**vals)  # noqa: E731
        logs_ctor = True
    else:
        names.kindname = kind.name
        model_in = kind.make(shape, names, ctor_log)
        model_out = kind.make(shape, names)
        rd = lambda o, n, d=None: kind.get(o, n)  # noqa: E731
        construct = kind.construct
        logs_ctor = kind.logs_ctor()
        feats["kind"] = kind.name

    def saturator(m, extra):
        sat_log.append((m, extra))

    def extractor(m):
        return {names.table["u1"]: "x1"}
    helpers = {"saturator": saturator, "extractor": extractor}

    def add(cat, what, detail, extra_sig=None, **kw):
        sig = {"what": what, **{k: feats[k] for k in ("aslist", "extra_in", "extra_out", "nested", "list_step")}}
        if kind is not None:
            sig["kind"] = kind.name
            if TYPE_PRED_USED or (cat == "C01" and in_used):
                sig["type_predicate"] = True
            if getattr(names, "reversed_names", False) and feats["aslist"]:
                sig["definition_order_not_alphabetical"] = True
        if feats["out_only"]:
            sig["out_only_before_input_field"] = feats["out_only_before_input_field"]
        if getattr(names, "table_index", None) is not None:
            sig["names"] = names.table_index
        if extra_sig:
            sig.update(extra_sig)
        out[cat].append({"sig": sig, "detail": detail, "size": len(json.dumps(case["ovs"])) + 10 * len(shape), "case": {
            "shape": shape, "ovs": case["ovs"], "created_in": case["created_in"], "created_out": case["created_out"]}, **kw})

    def recipe_for(model):
        r = random.Random(rng.random())
        return [build_overlay(ov, shape, names, r, model, helpers) for ov in case["ovs"]]

    # ---------------- loader side ----------------
    del TYPE_PRED_USED[:]
    try:
        retort_in = Retort(recipe=recipe_for(model_in))
    except Exception as e:  # noqa: BLE001
        add("C03", "recipe_construction_raises", f"name_mapping(...) raised {e!r}")
        return
    loaders = {}
    created = True
    try:
        for dt in DebugTrail:
            loaders[dt.name] = retort_in.replace(debug_trail=dt).get_loader(model_in)
    except ProviderNotFoundError:
        created = False
    except Exception as e:  # noqa: BLE001
        add("C03", "loader_creation_raises", f"get_loader raised {type(e).__name__}: {str(e)[:200]}")
        created = None
    out["programs"] += 1
    if created is not None and created != case["created_in"] and not kwargs_prog:
        add("C03", "loader_creation_verdict", f"documented: {'created' if case['created_in'] else 'refused'}; observed: "
            f"{'created' if created else 'refused'}")
    if created and case["created_in"]:
        user_loaders: dict = {}
        for probe in case["probes"]:
            datum = render_data(probe["d"], shape, names)
            mo = probe["out"]
            if names.style() != 0 and any(not shape[i - 1]["req"] for i in none_leaf_fields(probe["d"], case["paths_in"])):
                continue          # gamma declared the defaulted fields Optional[...] (defaults written as None / factories): None is well-typed there
            if has_bad(probe["d"]) and not mo["ok"] and any(e["kind"] == "Leaf" for e in mo["errs"]):
                # the same probe with USER supplied field loaders that refuse an ill-typed leaf by raising a non-LoadError: loading
                # fails in every mode, and what escapes is a bare exception or a plain ExceptionGroup - never a LoadError (an
                # AggregateLoadError) with a leaf that is not a LoadError (C04)
                if not user_loaders:
                    exc_cls = STRICT_EXC[int(stable_hash([case["shape"], case["ovs"]]), 16) % len(STRICT_EXC)]
                    try:
                        for dt in DebugTrail:
                            user_loaders[dt.name] = retort_in.extend(recipe=strict_loaders(exc_cls)).replace(debug_trail=dt).get_loader(model_in)
                    except Exception:  # noqa: BLE001
                        user_loaders = {"-": None}
                if "-" not in user_loaders:
                    verdicts = {}
                    for dtname, ul in user_loaders.items():
                        out["runs"] += 1
                        try:
                            verdicts[dtname] = ("ok", ul(render_data(probe["d"], shape, names)))
                        except BaseException as e:  # noqa: BLE001
                            verdicts[dtname] = ("err", e)
                    oks = sorted(k for k, v in verdicts.items() if v[0] == "ok")
                    if oks and len(oks) < 3:
                        add("C06", "load_verdict_differs_between_modes_with_user_loaders", f"{datum!r}: accepted under {oks} only", {"modes_ok": oks}, probe=probe["d"])
                    for dtname, (tag, exc) in verdicts.items():
                        if tag == "err" and isinstance(exc, LoadError) and any(x[1].startswith("FOREIGN") for x in flat_model_errors(exc)):
                            add("C04", "load_error_with_foreign_leaf", f"{dtname}: {datum!r} with user field loaders raising {STRICT_EXC[0].__name__}-like errors: "
                                f"{type(exc).__name__} (a LoadError) carries {[x[1] for x in flat_model_errors(exc) if x[1].startswith('FOREIGN')][:2]}",
                                {"exc": "user_loader_in_model"}, probe=probe["d"], dt=dtname)
            # (the lookup of required keys is the same generated code for every model kind: judged on the dataclass models, kind = None)
            # (... and for every spelling of the names: not repeated under the hostile dictionaries of C19)
            if kind is None and getattr(names, "table_index", None) is None and isinstance(datum, dict) and any(e["kind"] == "NoRequiredFields" for e in mo["errs"]):
                # the same input as a mapping with __missing__: an absent required key is still absent, and loading does not write
                # into the input
                for dtname, loader in loaders.items():
                    out["runs"] += 1
                    dd = with_missing(datum)
                    try:
                        got = loader(dd)
                        add("C03", "accepts_input_violating_layout", f"{dtname}: {datum!r} given as defaultdict loaded to {got!r}; documented errors "
                            f"{mo['errs']}", {"mapping_with_missing": True}, probe=probe["d"], dt=dtname)
                    except BaseException as e:  # noqa: BLE001
                        if not isinstance(e, LoadError):
                            add("C04", "foreign_exception_from_model_loader", f"{dtname}: {datum!r} given as defaultdict raised {type(e).__name__}",
                                {"exc": type(e).__name__, "mapping_with_missing": True}, probe=probe["d"], dt=dtname)
                    if plain_of(dd) != datum:
                        add("C03", "loading_wrote_into_the_input", f"{dtname}: the input {datum!r} given as defaultdict is {plain_of(dd)!r} after loading",
                            {"mapping_with_missing": True}, probe=probe["d"], dt=dtname)
            for dtname, loader in loaders.items():
                out["runs"] += 1
                del ctor_log[:]
                try:
                    obj = loader(datum)
                    res = ("ok", obj)
                except BaseException as e:  # noqa: BLE001
                    res = ("err", e)
                pd = {"probe": probe["d"], "py_datum": repr(datum)[:300], "dt": dtname}
                if mo["ok"]:
                    if res[0] == "err":
                        add("C03", "rejects_layout_conforming_input", f"{dtname}: {datum!r} raised {type(res[1]).__name__}: {str(res[1])[:150]}", **pd)
                        continue
                    obj = res[1]
                    for i, f in enumerate(shape, start=1):
                        want = mo["obj"][i - 1]
                        got = rd(obj, names.field(f["id"]), "<missing attribute>")
                        if want["a"] == "absent":
                            if got is not MISSING:
                                add("C03", "field_value_from_wrong_place", f"{dtname}: key {names.field(f['id'])} = {got!r}, documented absent for input {datum!r}", **pd)
                        elif want["a"] == "extras":
                            exp = render_data(mo["extra"], shape, names)
                            if prune_extra(dict(got) if isinstance(got, dict) else got) != prune_extra(exp):
                                add("C03", "extra_target_content", f"{dtname}: target field got {got!r}, unknown data is {exp!r}", **pd)
                        else:
                            exp = render_data(want, shape, names, "obj")
                            if got != exp or type(got) is not type(exp):
                                add("C03", "field_value_from_wrong_place", f"{dtname}: field {names.field(f['id'])} = {got!r}, documented {exp!r} for input {datum!r}",
                                    {"default": want["a"] == "dfl"}, **pd)
                    xin = case["sch"]["extra_in"]["p"]
                    if xin in ("kwargs", "saturate"):
                        got = getattr(obj, "kwargs", None) if xin == "kwargs" else next((x for m, x in reversed(sat_log) if m is obj), "<saturator not called>")
                        exp = render_data(mo["extra"], shape, names)
                        if xin == "kwargs" and prune_extra(got) != prune_extra(exp) or xin == "saturate" and (not isinstance(got, dict) or prune_extra(dict(got)) != prune_extra(exp)):
                            add("C03", "extra_delivery", f"{dtname}: {xin} received {got!r}, unknown data is {exp!r}", **pd)
                    if not kwargs_prog and logs_ctor and ctor_log != ["post_init"]:
                        add("C08", "constructor_not_called_once", f"{dtname}: constructor side effects {ctor_log}", **pd)
                    if HEAP["on"]:
                        xtarget = case["sch"]["extra_in"]["f"] if xin == "target" else 0
                        any_fields = [names.field(f["id"]) for i, f in enumerate(shape, start=1) if f["ty"] == "any" and i != xtarget]
                        _heap_obs(out, loader, lambda: render_data(probe["d"], shape, names),
                                  lambda a, r: [rd(r, n, None) for n in any_fields]
                                  + ([v for v in (rd(r, names.field(shape[xtarget - 1]["id"]), None) or {}).values()] if xtarget else [])
                                  + (list((getattr(r, "kwargs", None) or {}).values()) if xin == "kwargs" else [])
                                  + (list(next((x for m, x in reversed(sat_log) if m is r), {}).values()) if xin == "saturate" else []),
                                  obj, f"load {dtname}", case)
                else:
                    if res[0] == "ok":
                        add("C03", "accepts_input_violating_layout", f"{dtname}: {datum!r} loaded to {res[1]!r}; documented errors {mo['errs']}", **pd)
                        continue
                    exc = res[1]
                    flat = flat_model_errors(exc)
                    foreign = [x for x in flat if x[1].startswith("FOREIGN")]
                    if foreign or not isinstance(exc, LoadError):
                        add("C04", "foreign_exception_from_model_loader", f"{dtname}: {datum!r} raised {type(exc).__name__} {foreign or ''}: {str(exc)[:120]}",
                            {"exc": (foreign[0][1] if foreign else type(exc).__name__)}, **pd)
                        continue
                    want = model_errs(mo["errs"], names)
                    if dtname == "ALL":
                        unmatched_real = [r for r in flat if not any(err_matches(r, m) for m in want)]
                        unmatched_model = [m for m in want if not any(err_matches(r, m) for r in flat)]
                        if unmatched_real or unmatched_model or len(flat) != len(want):
                            add("C05", "model_errors_not_exact_in_ALL", f"ALL: reported {sorted(map(str, flat))}; documented {sorted(map(str, want))} for {datum!r}", **pd)
                    elif dtname == "FIRST":
                        if len(flat) != 1 or not any(err_matches(flat[0], m) for m in want):
                            add("C05", "model_error_misplaced_in_FIRST", f"FIRST: reported {flat}; documented one of {sorted(map(str, want))} for {datum!r}", **pd)
                    else:
                        if any(t for t, _, _ in flat):
                            add("C05", "trail_in_DISABLE", f"DISABLE: trail attached {flat}", **pd)
                        elif len(flat) != 1 or not any(err_matches((m[0], flat[0][1], flat[0][2]), m) for m in want):
                            add("C06", "disable_error_not_among_all", f"DISABLE: raised {flat}; documented set {sorted(map(str, want))}", **pd)
    # ---------------- dumper side ----------------
    in_used += TYPE_PRED_USED
    del TYPE_PRED_USED[:]
    try:
        retort_out = Retort(recipe=recipe_for(model_out))
    except Exception as e:  # noqa: BLE001
        add("C03", "recipe_construction_raises", f"name_mapping(...) raised {e!r}")
        return
    dumpers = {}
    created = True
    try:
        for dt in DebugTrail:
            dumpers[dt.name] = retort_out.replace(debug_trail=dt).get_dumper(model_out)
    except ProviderNotFoundError:
        created = False
    except Exception as e:  # noqa: BLE001
        add("C03", "dumper_creation_raises", f"get_dumper raised {type(e).__name__}: {str(e)[:200]}")
        created = None
    if created is not None and created != case["created_out"]:
        add("C03", "dumper_creation_verdict", f"documented: {'created' if case['created_out'] else 'refused'}; observed: "
            f"{'created' if created else 'refused'}")
    if created and case["created_out"]:
        strict: dict = {}
        for dump in case["dumps"]:
            vals = {names.field(f["id"]): render_data(v, shape, names, "obj") for f, v in zip(shape, dump["obj"]) if not out_only(f)}
            vals = {k: (MISSING if v is ABSENT else v) for k, v in vals.items()}
            obj = construct(model_out, vals)
            if any(v["a"] == "bad" for v in dump["obj"]):
                # a field value its (user supplied, type checking) dumper refuses: the dump fails in every debug mode
                if not strict:
                    exc_cls = STRICT_EXC[int(stable_hash([case["shape"], case["ovs"]]), 16) % len(STRICT_EXC)]
                    try:
                        for dt in DebugTrail:
                            strict[dt.name] = retort_out.extend(recipe=strict_dumpers(exc_cls)).replace(debug_trail=dt).get_dumper(model_out)
                    except Exception as e:  # noqa: BLE001
                        add("C03", "dumper_creation_raises", f"get_dumper with user field dumpers raised {type(e).__name__}: {str(e)[:200]}")
                        break
                verdicts = {}
                for dtname, dumper in strict.items():
                    out["runs"] += 1
                    try:
                        verdicts[dtname] = ("ok", dumper(obj))
                    except BaseException as e:  # noqa: BLE001
                        verdicts[dtname] = ("err", type(e).__name__)
                oks = {k for k, v in verdicts.items() if v[0] == "ok"}
                if 0 < len(oks) < 3:
                    add("C06", "dump_verdict_differs_between_modes", f"dump({obj!r}) with type checking field dumpers: {verdicts}", {"modes_ok": sorted(oks)})
                elif (len(oks) == 0) != dump["fails"]:
                    add("C03", "dump_swallows_field_dumper_error" if dump["fails"] else "dump_fails_on_field_not_in_layout",
                        f"dump({obj!r}) with type checking field dumpers: {verdicts}; documented: {'fails' if dump['fails'] else 'succeeds'}")
                continue
            want = render_data(dump["out"], shape, names)
            backs: list = []
            for dtname, dumper in dumpers.items():
                out["runs"] += 1
                try:
                    got = dumper(obj)
                except BaseException as e:  # noqa: BLE001
                    add("C03", "dumper_raises", f"{dtname}: dump({obj!r}) raised {type(e).__name__}: {str(e)[:150]}", dt=dtname)
                    continue
                if got != want or _shape_of(got) != _shape_of(want):
                    add("C03", "dumped_layout_differs", f"{dtname}: dump({obj!r}) = {got!r}; documented {want!r}",
                        {"omit": any(ov["omit"]["o"] for ov in case["ovs"])}, dt=dtname)
                # ---- C01 on the real library: load(dump(x)) == x wherever the model promises it (same paths both ways, nothing
                # that the loader forbids is merged in, every field part of the layout) --------------------------------
                io = [i for i, f in enumerate(shape) if not out_only(f)]
                if (dtname in loaders and not kwargs_prog and case["created_in"]
                        and all(case["paths_in"][i] == case["paths_out"][i] for i in io)
                        # what an output-only field writes is unknown data for the loader (MC_Layout.LoaderDumperAgree)
                        and (case["sch"]["extra_in"]["p"] == "skip" or not any(out_only(f) and case["paths_out"][i] for i, f in enumerate(shape)))
                        and (case["sch"]["extra_out"]["p"] == "skip" or case["sch"]["extra_in"]["p"] != "forbid")
                        and all(case["paths_in"][i - 1] or (case["sch"]["extra_in"]["p"] == "target" and case["sch"]["extra_out"]["p"] == "target"
                                                            and case["sch"]["extra_in"]["f"] == case["sch"]["extra_out"]["f"] == i)
                                for i in (j + 1 for j in io))):
                    out["runs"] += 1
                    try:
                        back = loaders[dtname](got)
                    except BaseException as e:  # noqa: BLE001
                        add("C01", "load_of_dump_raises", f"{dtname}: x={obj!r} dump={got!r}; load raised {type(e).__name__}: {str(e)[:150]}", dt=dtname)
                    else:
                        backs.append(back)
                        diff = [n for n in vals if vals[n] is not MISSING and rd(back, n, None) != vals[n]]
                        gone = [n for n in vals if vals[n] is MISSING and rd(back, n, MISSING) is not MISSING]
                        if diff or gone:
                            add("C01", "round_trip_differs", f"{dtname}: x={obj!r} dump={got!r} load={back!r} (fields {diff + gone})",
                                {"omit": any(ov["omit"]["o"] for ov in case["ovs"])}, dt=dtname)
                elif HEAP["on"]:
                    xo = case["sch"]["extra_out"]
                    xtarget = xo["f"] if xo["p"] == "target" else 0
                    any_fields = [names.field(f["id"]) for i, f in enumerate(shape, start=1) if f["ty"] == "any" and i != xtarget]
                    _heap_obs(out, dumper, lambda: construct(model_out, {k: copy.deepcopy(v) for k, v in vals.items()}),
                              lambda a, r: [rd(a, n, None) for n in any_fields]
                              + (list((rd(a, names.field(shape[xtarget - 1]["id"]), None) or {}).values()) if xtarget else []),
                              got, f"dump {dtname}", case)
            # the objects load() returned belong to the caller: what the caller does to them must not reach any later result
            for back in backs:
                for n in vals:
                    v = rd(back, n, None)
                    if isinstance(v, list):
                        v.append("poison")
                    elif isinstance(v, dict):
                        v["poison"] = 1


def run_twin(c1: dict, c2: dict, seed: int, names: Names, out: dict) -> None:
    """the same model class at two locations of one outer model, each location with its own recipe: every location must
    behave as its own program (location-dependent name_mapping, and no cross-talk through the retort's caches)"""
    from adaptix import DebugTrail, P, Retort
    from adaptix.load_error import LoadError
    shape = c1["shape"]
    rng = random.Random(f"twin{seed}:{stable_hash([c1['ovs'], c2['ovs']])}")
    model = make_dataclass_model(shape, names)
    outer = dataclasses.make_dataclass("Outer", [("p", model), ("q", model)])
    helpers = {"saturator": lambda m, extra: setattr(m, "_sat", extra), "extractor": lambda m: {names.table["u1"]: "x1"}}
    order = [("p", c1), ("q", c2)]
    if rng.random() < 0.5:
        order.reverse()
    recipe = []
    for loc, c in order:
        recipe += [build_overlay(ov, shape, names, rng, model, helpers, bind=getattr(P[outer], loc)) for ov in c["ovs"]]
    try:
        base = Retort(recipe=recipe)
        loaders = {dt.name: base.replace(debug_trail=dt).get_loader(outer) for dt in (DebugTrail.ALL, DebugTrail.DISABLE)}
    except Exception as e:  # noqa: BLE001
        out["C03"].append({"sig": {"what": "twin_creation_raises"}, "detail": f"{type(e).__name__}: {str(e)[:200]}", "size": 10 ** 6,
                           "case": {"shape": shape, "ovs": [c1["ovs"], c2["ovs"]]}})
        return
    base1 = next(p for p in c1["probes"] if p["out"]["ok"])
    base2 = next(p for p in c2["probes"] if p["out"]["ok"])
    pairs = [(p, base2) for p in c1["probes"]] + [(base1, p) for p in c2["probes"]]
    for p1, p2 in pairs:
        if names.style() != 0 and any(not shape[i - 1]["req"] for c, p in ((c1, p1), (c2, p2)) for i in none_leaf_fields(p["d"], c["paths_in"])):
            continue          # None is well-typed for the Optional[...] fields gamma declared
        datum = {"p": render_data(p1["d"], shape, names), "q": render_data(p2["d"], shape, names)}
        for dtname, loader in loaders.items():
            out["runs"] += 1
            try:
                res = ("ok", loader(datum))
            except BaseException as e:  # noqa: BLE001
                res = ("err", e)
            both_ok = p1["out"]["ok"] and p2["out"]["ok"]

            def add(what, detail):
                sig = {"what": what, "twin": True}
                for c in (c1, c2):     # a location whose program lies in the subspace of the as_list / output-only finding
                    if c["sch"]["aslist"] and program_features(c)["out_only_before_input_field"]:
                        sig.update({"aslist": True, "out_only_before_input_field": True})
                out["C03"].append({"sig": sig, "detail": detail, "size": 10 ** 5 + len(json.dumps([c1["ovs"], c2["ovs"]])),
                                   "case": {"shape": shape, "ovs_p": c1["ovs"], "ovs_q": c2["ovs"]}, "py_datum": repr(datum)[:300], "dt": dtname})
            if both_ok:
                if res[0] == "err":
                    add("twin_rejects_conforming_input", f"{dtname}: {datum!r} raised {type(res[1]).__name__}: {str(res[1])[:120]}")
                    continue
                for loc, pr in (("p", p1), ("q", p2)):
                    obj = getattr(res[1], loc)
                    for i, f in enumerate(shape, start=1):
                        want = pr["out"]["obj"][i - 1]
                        if want["a"] == "extras":
                            continue
                        exp = render_data(want, shape, names, "obj")
                        got = getattr(obj, names.field(f["id"]))
                        if got != exp:
                            add("twin_field_value", f"{dtname}: {loc}.{names.field(f['id'])} = {got!r}, documented {exp!r} for {datum!r}")
            else:
                if res[0] == "ok":
                    add("twin_accepts_input_violating_layout", f"{dtname}: {datum!r} loaded to {res[1]!r}")
                    continue
                if dtname == "ALL" and isinstance(res[1], LoadError):
                    flat = flat_model_errors(res[1])
                    want = set()
                    for loc, pr in (("p", p1), ("q", p2)):
                        want |= {((loc,) + t, k, ks) for t, k, ks in model_errs(pr["out"]["errs"], names)}
                    if [r for r in flat if not any(err_matches(r, m) for m in want)] or [m for m in want if not any(err_matches(r, m) for r in flat)]:
                        out["C05"].append({"sig": {"what": "twin_errors_not_exact_in_ALL", "twin": True},
                                           "detail": f"ALL: reported {sorted(map(str, flat))}; documented {sorted(map(str, want))} for {datum!r}",
                                           "size": 10 ** 5, "case": {"shape": shape, "ovs_p": c1["ovs"], "ovs_q": c2["ovs"]}})
    # ---- the dumper side of the two locations: each location dumps by its own program (omit_default, paths, extras) ----
    if not (c1["created_out"] and c2["created_out"]):
        return
    sigx = {}
    for c in (c1, c2):
        if c["sch"]["aslist"] and program_features(c)["out_only_before_input_field"]:
            sigx = {"aslist": True, "out_only_before_input_field": True}
    try:
        dumpers = {dt.name: base.replace(debug_trail=dt).get_dumper(outer) for dt in (DebugTrail.ALL, DebugTrail.DISABLE)}
    except Exception as e:  # noqa: BLE001
        out["C03"].append({"sig": {"what": "twin_dumper_creation_raises", "twin": True, **sigx}, "detail": f"{type(e).__name__}: {str(e)[:200]}",
                           "size": 10 ** 6, "case": {"shape": shape, "ovs_p": c1["ovs"], "ovs_q": c2["ovs"]}})
        return
    plain = lambda c: [d for d in c["dumps"] if not d["fails"] and not any(v["a"] in ("bad", "absent") for v in d["obj"])]  # noqa: E731
    d1s, d2s = plain(c1), plain(c2)
    n = min(len(d1s), len(d2s), 6)
    for a, b in list(zip(d1s[:n], d2s[:n])) + list(zip(d1s[:n], d2s[n - 1::-1])):
        def mk(d):
            return model(**{names.field(f["id"]): render_data(v, shape, names, "obj") for f, v in zip(shape, d["obj"]) if not out_only(f)})
        want = {"p": render_data(a["out"], shape, names), "q": render_data(b["out"], shape, names)}
        for dtname, dumper in dumpers.items():
            out["runs"] += 1
            o = outer(p=mk(a), q=mk(b))
            try:
                got = dumper(o)
            except BaseException as e:  # noqa: BLE001
                got = f"raised {type(e).__name__}: {str(e)[:100]}"
            if got != want:
                out["C03"].append({"sig": {"what": "twin_dumped_layout_differs", "twin": True, **sigx},
                                   "detail": f"{dtname}: dump({o!r}) = {got!r}; each location by its own program: {want!r}",
                                   "size": 10 ** 5 + len(json.dumps([c1["ovs"], c2["ovs"]])),
                                   "case": {"shape": shape, "ovs_p": c1["ovs"], "ovs_q": c2["ovs"]}, "dt": dtname})


def _shape_of(x: Any) -> Any:
    if isinstance(x, dict):
        # (keys are compared as values: a key given as a member of a str-mixin Enum is the key "its value")
        return ("dict", tuple(sorted((repr(str.__str__(k)) if isinstance(k, str) else repr(k), _shape_of(v)) for k, v in x.items())))
    if isinstance(x, (list, tuple)):
        return ("list", tuple(_shape_of(v) for v in x))
    return type(x).__name__


CATS = ("C01", "C03", "C04", "C05", "C06", "C08")


def _min_per_sig(fs: list) -> list:
    best: dict = {}
    for f in fs:
        key = stable_hash(f["sig"])
        cur = best.get(key)
        if cur is None:
            f["count"] = f.get("count", 1)
            best[key] = f
        else:
            cur["count"] += f.get("count", 1)
            if f["size"] < cur["size"]:
                f["count"] = cur["count"]
                best[key] = f
    return list(best.values())


def _worker(items) -> dict:
    out: dict = {"programs": 0, "runs": 0, "machinery": [], "samples": [], "heap": {}, **{c: [] for c in CATS}}
    out["twins"] = 0
    out["by_kind"], out["unsupported"] = {}, {}
    for seed, path, spans, tables, kinds, *rest in items:
        for sp1, sp2 in (rest[0] if rest else ()):
            # sibling programs (they differ in omit_default only) as the two locations of one outer model
            with open(path, "rb") as f:
                cs = []
                for off, ln in (sp1, sp2):
                    f.seek(off)
                    cs.append(json.loads(json.loads(f.read(ln).decode("utf-8"))))
            names = Names()
            names.dstyle = (int(stable_hash([cs[0]["shape"], cs[0]["ovs"]]), 16) + seed) % 3
            try:
                if cs[0]["created_in"] and cs[1]["created_in"]:
                    run_twin(cs[0], cs[1], seed, names, out)
                    out["twins"] += 1
            except Exception:  # noqa: BLE001
                out["machinery"].append(f"harness error on sibling twin {json.dumps(cs[0]['ovs'])[:300]}: {traceback.format_exc()[-900:]}")
        every_variant = bool(kinds) and kinds[0] == "*"
        if every_variant:
            kinds = kinds[1:]
        prev = None
        names = Names()
        with open(path, "rb") as f:
            for off, ln in spans:
                f.seek(off)
                case = json.loads(json.loads(f.read(ln).decode("utf-8")))
                if tables:
                    h = int(stable_hash([case["shape"], case["ovs"]]), 16)
                    names = Names(tables[(h + seed) % len(tables)])
                    names.table_index = (h + seed) % len(tables)
                try:
                    names.dstyle = (int(stable_hash([case["shape"], case["ovs"]]), 16) + seed) % 3
                    names.user_factory = (int(stable_hash([case["shape"], case["ovs"]]), 16) // 3 + seed) % 2 == 0
                    choose_other_style(int(stable_hash([case["shape"], case["ovs"]]), 16) // 7 + seed)
                    if kinds is not None:
                        from .kinds import BY_NAME
                        from .kinds import VARIANT_KINDS
                        hv = int(stable_hash([case["shape"], case["ovs"]]), 16) + seed
                        if not tables and (hv // 3) % 2 and TYPE_PRED_ALLOWED["on"]:
                            # field names whose alphabetical order is the reverse of their order of definition
                            ds, uf = names.dstyle, names.user_factory
                            names = Names(REVERSED_NAMES)
                            names.dstyle, names.user_factory = ds, uf
                            names.reversed_names = True
                        elif not tables:
                            ds, uf = names.dstyle, names.user_factory
                            names = Names()
                            names.dstyle, names.user_factory = ds, uf
                        for kn in kinds:
                            if not every_variant and any(v.name == kn and i % 3 != hv % 3 for i, v in enumerate(VARIANT_KINDS)):
                                continue          # a variant spelling: met by one program in three
                            why = BY_NAME[kn].out_only_unsupported(case["shape"]) or BY_NAME[kn].supports(case["shape"], case["sch"])
                            if case["sch"]["extra_in"]["p"] == "kwargs":
                                why = "ExtraKwargs needs a constructor with **kwargs"
                            if why is None and case["sch"]["aslist"] and program_features(case)["out_only_before_input_field"]:
                                # every kind numbers the positions per direction (the recorded C03 finding): uniform among the kinds,
                                # different from the model - compared by C03 / C01 on the dataclass, not kind by kind
                                why = "as_list with an output-only field before a constructor parameter: the subspace of a recorded C03 finding"
                            if why is None:
                                run_program(case, seed, names, out, BY_NAME[kn])
                                out["by_kind"][kn] = out["by_kind"].get(kn, 0) + 1
                            else:
                                out["unsupported"][f"{kn}: {why}"] = out["unsupported"].get(f"{kn}: {why}", 0) + 1
                        continue
                    run_program(case, seed, names, out)
                    twinable = case["created_in"] and case["sch"]["extra_in"]["p"] not in ("kwargs", "target") and len(case["shape"]) == 3
                    if twinable and prev is not None and prev["shape"] == case["shape"] and prev["ovs"] != case["ovs"]:
                        run_twin(prev, case, seed, names, out)
                        out["twins"] += 1
                    if twinable:
                        prev = case
                except Exception:  # noqa: BLE001
                    out["machinery"].append(f"harness error on program {json.dumps(case['ovs'])[:300]}: {traceback.format_exc()[-900:]}")
                if not out["samples"] and case["created_in"] and len(case["probes"]) > 8:
                    out["samples"].append({"shape": [names.field(f["id"]) + ("" if f["req"] else "=dflt") for f in case["shape"]],
                                           "overlays": case["ovs"], "paths_in": [[names.key(k) for k in p] for p in case["paths_in"]],
                                           "n_probes": len(case["probes"]), "n_dump_objects": len(case["dumps"])})
    for c in CATS:
        out[c] = _min_per_sig(out[c])
    return out


def run_slices(ctx: Ctx, slices, max_overlays: dict, tables: Optional[list] = None, twins: bool = True, kind_tla: str = "dataclass",
               kinds: Optional[list] = None, every: int = 1, invs: Optional[list] = None) -> dict:
    """kinds: run every program on these model kinds (vf/kinds.py) instead of the C03 dataclass models; kind_tla: the Kinds.tla
    variant the cases are enumerated for; every: replay only the programs whose hash is 0 modulo `every` (quick tiers)"""
    total: dict = {"programs": 0, "runs": 0, "twins": 0, "heap": {}, "by_kind": {}, "unsupported": {}, **{c: [] for c in CATS}}
    for sl in slices:
        cfg = make_cfg(constants=dict(Kind=f'"{kind_tla}"', Slice=f'"{sl}"', MaxOverlays=max_overlays.get(sl, 1), EmitCases=True), invariants=INVS + (invs or []))
        res = run_tlc(ctx.scratch, "MC_Layout", cfg, tag=f"MC_Layout_{kind_tla}_{sl}", timeout_s=3000, heap_gb=12)
        ctx.add_tlc(res, f"slice {sl}: programs enumerated with probe families; model-level invariants")
        if not res.ok:
            ctx.model_violation(res, "Layout.tla violates its own consistency properties")
        spans = []
        siblings: dict = {}
        off = n_seen = 0
        with open(res.out_path, "rb") as f:
            for line in f:
                ln = len(line)
                if line.startswith(b'"{\\"shape\\":'):
                    n_seen += 1
                    # TLC prints the cases in a worker-dependent order: select and order them by content, so that which programs are
                    # replayed (every > 1) and which consecutive programs are paired as twins is the same in every run
                    crc = zlib.crc32(line)
                    if every == 1 or (crc + ctx.seed) % every == 0:
                        spans.append((zlib.crc32(line.split(b'\\"ovs\\"', 1)[0]), crc, off, ln - 1))      # programs of one shape stay neighbours
                    if sl == "E" and twins and kinds is None:
                        case = json.loads(json.loads(line[:ln - 1].decode("utf-8")))
                        if len(case["shape"]) == 3 and case["ovs"]:
                            core = [case["shape"], [{**ov, "omit": None} for ov in case["ovs"]]]
                            siblings.setdefault(stable_hash(core), []).append((off, ln - 1))
                off += ln
        spans = [(o, n) for _, _, o, n in sorted(spans)]
        items = [(ctx.seed, str(res.out_path), spans[i:i + 20], tables, kinds) for i in range(0, len(spans), 20)]
        # programs that differ in omit_default only, paired as two locations of one outer model (run_twin)
        pairs = [(g[i], g[j]) for _, g in sorted(siblings.items()) for g in [sorted(g)] for i in range(len(g)) for j in range(len(g)) if i != j][: 4000]
        items += [(ctx.seed, str(res.out_path), [], tables, kinds, pairs[i:i + 25]) for i in range(0, len(pairs), 25)]
        machinery = []
        for o in pmap(_worker, items, chunk=1):
            total["programs"] += o["programs"]
            total["runs"] += o["runs"]
            total["twins"] += o["twins"]
            for kk in ("by_kind", "unsupported"):
                for k, v in o[kk].items():
                    total[kk][k] = total[kk].get(k, 0) + v
            machinery += o["machinery"]
            for k, slot in o["heap"].items():
                if k in total["heap"]:
                    total["heap"][k]["n"] += slot["n"]
                else:
                    total["heap"][k] = slot
            for c in CATS:
                total[c] += o[c]
            if len(ctx.samples) < 4:
                ctx.samples += o["samples"]
        if machinery:
            raise MachineryError(f"{len(machinery)} harness failures, first: {machinery[0]}")
    for c in CATS:
        total[c] = _min_per_sig(total[c])
    ctx.replayed += total["runs"]
    ctx.evaluations += total["runs"]
    ctx.nontrivial_n += total["programs"]
    ctx.extra["programs"] = total["programs"]
    ctx.extra["twin_location_programs"] = total["twins"]
    return total


def report(ctx: Ctx, total: dict, cat: str) -> None:
    fs = sorted(total[cat], key=lambda f: (f["size"], json.dumps(f["sig"], sort_keys=True)))
    for f in fs:
        ctx.violation(f["sig"], f"{f['sig']['what']}: {f['detail'][:230]}",
                      {"category": cat, "program": f["case"], "detail": f["detail"], "count": f["count"],
                       **{k: f[k] for k in ("probe", "py_datum", "dt") if k in f}})
