"""gamma (abstract type / datum / result term -> Python) and alpha (Python outcome -> abstract) for the
Load / Dump models."""
from __future__ import annotations

import collections
import collections.abc
import datetime as dtm
import ipaddress
import math
import io
import os
import pathlib
import re
import typing
import uuid
from decimal import Decimal
from fractions import Fraction
from typing import Any, Optional

from . import univ

SCALAR_HINT = {
    "int": int, "float": float, "str": str, "bool": bool, "Decimal": Decimal, "Fraction": Fraction, "complex": complex,
    "None": None, "Any": typing.Any, "bytes": bytes, "bytearray": bytearray, "date": dtm.date, "time": dtm.time,
    "datetime": dtm.datetime, "timedelta": dtm.timedelta, "UUID": uuid.UUID, "Path": pathlib.Path,
    "IPv4Address": ipaddress.IPv4Address, "Pattern": re.Pattern,
    "BytesIO": io.BytesIO, "IObytes": typing.IO[bytes], "object": object, "LiteralString": typing.LiteralString, "ByteString": typing.ByteString,
    "PurePath": pathlib.PurePath, "PurePosixPath": pathlib.PurePosixPath, "PosixPath": pathlib.PosixPath, "PureWindowsPath": pathlib.PureWindowsPath,
    "PathLike": os.PathLike[str], "IPv6Address": ipaddress.IPv6Address, "IPv4Network": ipaddress.IPv4Network, "IPv6Network": ipaddress.IPv6Network,
    "IPv4Interface": ipaddress.IPv4Interface, "IPv6Interface": ipaddress.IPv6Interface,
}
ITER_HINT = {
    "list": [typing.List, list], "MutableSequence": [typing.MutableSequence, collections.abc.MutableSequence],
    "tuple_var": None, "Iterable": [typing.Iterable, collections.abc.Iterable],
    "Sequence": [typing.Sequence, collections.abc.Sequence], "Collection": [typing.Collection, collections.abc.Collection],
    "Reversible": [typing.Reversible, collections.abc.Reversible], "set": [typing.Set, set],
    "MutableSet": [typing.MutableSet, collections.abc.MutableSet], "frozenset": [typing.FrozenSet, frozenset],
    "AbstractSet": [typing.AbstractSet, collections.abc.Set], "deque": [typing.Deque, collections.deque],
}
DICT_HINT = {
    "dict": [typing.Dict, dict], "Mapping": [typing.Mapping, collections.abc.Mapping],
    "MutableMapping": [typing.MutableMapping, collections.abc.MutableMapping],
    "defaultdict": [typing.DefaultDict, collections.defaultdict],
}
_NEWTYPES: dict[str, Any] = {}


# types served by a user supplied loader (spec/Load.tla "user"): loader(UserInt, int)
USER_TYPES = {"int": typing.NewType("UserInt", int), "int early": type("AUser", (), {"__module__": "a"})}
# the configurable date providers are routed to types of their own: the loader / dumper that the provider itself makes for
# datetime / date is attached to a NewType (a provider bound to a NewType is not asked: the NewType is unwrapped first)
PROVIDER_TYPES = {"datetime_ts": typing.NewType("DatetimeTs", dtm.datetime), "date_ts": typing.NewType("DateTs", dtm.date),
                  "datetime_fmt": typing.NewType("DatetimeFmt", dtm.datetime)}
SCALAR_HINT.update(PROVIDER_TYPES)


_RECIPE: list = []


def user_recipe() -> list:
    if not _RECIPE:
        _RECIPE.extend(_user_recipe())
    return list(_RECIPE)


def _user_recipe() -> list:
    from adaptix import Retort, date_by_timestamp, datetime_by_format, datetime_by_timestamp, dumper, loader
    out = [loader(USER_TYPES["int"], int), loader(USER_TYPES["int early"], int)]
    for kind, prov, base in (("datetime_ts", datetime_by_timestamp(), dtm.datetime), ("date_ts", date_by_timestamp(), dtm.date),
                             ("datetime_fmt", datetime_by_format(fmt=univ.TS_FORMAT), dtm.datetime)):
        helper = Retort(recipe=[prov])
        out += [loader(PROVIDER_TYPES[kind], helper.get_loader(base)), dumper(PROVIDER_TYPES[kind], helper.get_dumper(base))]
    return out


def has_user(T: dict) -> bool:
    return T["k"] == "user" or any(has_user(a) for a in T["a"])


def hint(T: dict, variant: int = 0, rk: int = 0) -> Any:
    """abstract type -> a real type hint.  `variant` selects typing alias vs builtin / abc spelling."""
    k = T["k"]
    if k in SCALAR_HINT:
        return SCALAR_HINT[k]
    if k == "user":
        return USER_TYPES[" ".join(T["v"])]
    args = [hint(a, variant, rk) for a in T["a"]]
    if k in ITER_HINT:
        if k == "tuple_var":
            return (typing.Tuple, tuple)[variant % 2][args[0], ...]
        return ITER_HINT[k][variant % 2][args[0]]
    if k in DICT_HINT:
        return DICT_HINT[k][variant % 2][args[0], args[1]]
    if k == "tuple_fix":
        base = (typing.Tuple, tuple)[variant % 2]
        return base[tuple(args)] if args else base[()]
    if k == "union":
        return typing.Union[tuple(args)]
    if k == "literal":
        return typing.Literal[tuple(univ.rep(t, rk) for t in T["v"])]
    if k == "newtype":
        key = repr(args[0])
        if key not in _NEWTYPES:
            _NEWTYPES[key] = typing.NewType(f"NT{len(_NEWTYPES)}", args[0])
        return _NEWTYPES[key]
    if k == "annotated":
        return typing.Annotated[args[0], "meta"]
    raise ValueError(k)


def type_str(T: dict) -> str:
    k = T["k"]
    if k == "literal":
        return "Literal[" + ",".join(T["v"]) + "]"
    if k == "user":
        return "user(" + " ".join(T["v"]) + ")"
    if not T["a"]:
        return k
    return k + "[" + ",".join(type_str(a) for a in T["a"]) + "]"


# ---------------------------------------------------------------------------------------------
class CMap(collections.abc.Mapping):
    """a Mapping that is not a dict"""

    def __init__(self, d):
        self._d = dict(d)

    def __getitem__(self, k):
        return self._d[k]

    def __iter__(self):
        return iter(self._d)

    def __len__(self):
        return len(self._d)

    def __repr__(self):
        return f"CMap({self._d!r})"


class CIter:
    """an iterable that is nothing else (no __len__, no __getitem__)"""

    def __init__(self, xs):
        self._xs = list(xs)

    def __iter__(self):
        return iter(self._xs)

    def __repr__(self):
        return f"CIter({self._xs!r})"


class Node:
    """a concretised datum: make() gives a fresh python object each time (generators are consumable)"""

    __slots__ = ("c", "a", "children", "keys", "vals", "value", "k", "last")

    def __init__(self, d: dict, k: int):
        self.c = d["c"]
        self.k = k
        if self.c == "atom":
            self.a = d["a"]
            self.value = univ.rep(d["a"], k)
        elif self.c in ("dict", "cmap", "defaultdict"):
            self.keys = [Node(x, k) for x in d["ks"]]
            self.vals = [Node(x, k) for x in d["vs"]]
        else:
            self.children = [Node(x, k) for x in d["xs"]]

    def make(self) -> Any:
        """a fresh concrete object; every node remembers the object it contributed to the latest make()"""
        self.last = self._make()
        return self.last

    def _make(self) -> Any:
        c = self.c
        if c == "atom":
            if self.a in univ.STATEFUL_TOKENS:
                self.value = univ.rep(self.a, self.k)        # streams are read by a dump: a fresh one for every call
            return self.value
        if c in ("dict", "cmap", "defaultdict"):
            d = {kk.make(): vv.make() for kk, vv in zip(self.keys, self.vals)}
            return d if c == "dict" else collections.defaultdict(None, d) if c == "defaultdict" else CMap(d)
        xs = [ch.make() for ch in self.children]
        if c == "list":
            return xs
        if c == "tuple":
            return tuple(xs)
        if c == "set":
            return set(xs)
        if c == "frozenset":
            return frozenset(xs)
        if c == "deque":
            return collections.deque(xs)
        if c == "gen":
            return (x for x in xs)
        if c == "citer":
            return CIter(xs)
        raise ValueError(c)

    def iteration_order(self) -> list[int]:
        """abstract child indices in the order the latest concrete object iterates them (sets are unordered)"""
        kids = self.iter_children()
        if self.c not in ("set", "frozenset"):
            return list(range(len(kids)))
        order = []
        for x in self.last:
            for i, ch in enumerate(kids):
                if i not in order and ch.last is x or (i not in order and type(ch.last) is type(x) and ch.last == x):
                    order.append(i)
                    break
        return order if len(order) == len(kids) else list(range(len(kids)))

    def iter_children(self) -> list["Node"]:
        """children in abstract order (for dict-likes: the keys)"""
        if self.c == "atom":
            return []
        if self.c in ("dict", "cmap", "defaultdict"):
            return self.keys
        return self.children

    def py(self) -> str:
        return repr(self.make()) if self.c not in ("gen",) else "(x for x in " + repr([ch.make() for ch in self.children]) + ")"


def canon(v: Any) -> Any:
    """typed canonical form: equality of canon == equal value AND equal types throughout"""
    t = type(v)
    if t is float:
        return ("float", "nan") if v != v else ("float", v)  # noqa: PLR0124
    if t is Decimal:
        return ("Decimal", "nan" if v.is_nan() else str(v.normalize()) if v == v else "nan")  # noqa: PLR0124
    if t is complex:
        return ("complex", repr(v))
    if t in (list, tuple, collections.deque):
        return (t.__name__, tuple(canon(x) for x in v))
    if t in (set, frozenset):
        return (t.__name__, frozenset(canon(x) for x in v))
    if t in (dict, collections.defaultdict):
        extra = ("df", repr(v.default_factory)) if t is collections.defaultdict else ()
        return (t.__name__, frozenset((canon(a), canon(b)) for a, b in v.items()), extra)
    if t is re.Pattern:
        return ("Pattern", v.pattern, v.flags)
    if t is bytearray:
        return ("bytearray", bytes(v))
    if t is io.BytesIO:
        return ("BytesIO", v.getvalue())
    if t is univ.NonSeek:          # (a fresh stream object is made for every call: compared by content)
        return ("NonSeek", v._buf.getvalue())
    try:
        hash(v)
    except TypeError:
        return (t.__name__, "id", id(v))
    return (t.__name__, v)


def _is_same_record(term: dict, node: Node) -> bool:
    """is the result term literally the datum record (an as-is position)?"""
    if term["c"] != node.c:
        return False
    if node.c == "atom":
        return term.get("a") == node.a
    if node.c in ("dict", "cmap"):
        return "ks" in term and len(term["ks"]) == len(node.keys) and all(
            _is_same_record(t, n) for t, n in zip(term["ks"] + term["vs"], node.keys + node.vals))
    return "xs" in term and len(term["xs"]) == len(node.children) and all(
        _is_same_record(t, n) for t, n in zip(term["xs"], node.children))


class NoValue(Exception):
    pass


def ev(term: dict, node: Node) -> Any:
    """expected python value of a result term, given the concretised datum it was computed from"""
    c = term["c"]
    if c == "atom":
        if node.c == "atom" and node.a == term["a"]:
            return node.value
        return univ.rep(term["a"], node.k)
    if c == "conv":
        base = node.value if (node.c == "atom" and node.a == term["a"]) else univ.rep(term["a"], node.k)
        return univ.CTORS[term["f"]](base)
    if c == "truth":
        return bool(node.make())
    if c == "strof":
        raise NoValue  # str(container): checked by type only
    if c in ("dict", "defaultdict") and "ks" in term:
        if node.c in ("dict", "cmap"):
            ks = [ev(t, n) for t, n in zip(term["ks"], node.keys)]
            vs = [ev(t, n) for t, n in zip(term["vs"], node.vals)]
            d = dict(zip(ks, vs))
            return d if c == "dict" else collections.defaultdict(None, d)
        raise NoValue
    if c in ("cmap", "gen", "citer") or (c == node.c and c in ("list", "tuple", "set", "frozenset", "deque", "dict")
                                         and _is_same_record(term, node)):
        return node.last     # an as-is (Any) position: the very object that was passed
    kids = node.iter_children()
    xs = [ev(term["xs"][i], kids[i]) for i in node.iteration_order()]
    return {"list": list, "tuple": tuple, "set": set, "frozenset": frozenset, "deque": collections.deque}[c](xs)


# ---------------------------------------------------------------------------------------------
# alpha on exceptions
# ---------------------------------------------------------------------------------------------
def flatten_exc(exc: BaseException, prefix: tuple = (), stop_union: bool = True) -> list[tuple[tuple, BaseException]]:
    """Depth-first flattening of load error groups: list of (full trail, leaf exception).
    UnionLoadError is a leaf at its own trail when stop_union."""
    from adaptix.load_error import AggregateLoadError, UnionLoadError
    from adaptix.struct_trail import get_trail
    trail = prefix + tuple(get_trail(exc))
    if isinstance(exc, UnionLoadError) and stop_union:
        return [(trail, exc)]
    if isinstance(exc, BaseExceptionGroup):
        out = []
        for sub in exc.exceptions:
            out += flatten_exc(sub, trail, stop_union)
        return out
    return [(trail, exc)]


def is_load_error_tree(exc: BaseException) -> Optional[str]:
    """None if exc is a LoadError whose leaves are all LoadErrors; otherwise the qualified class of the offender"""
    from adaptix.load_error import LoadError
    if not isinstance(exc, LoadError):
        return f"{type(exc).__module__}.{type(exc).__qualname__}"
    if isinstance(exc, BaseExceptionGroup):
        for sub in exc.exceptions:
            r = is_load_error_tree(sub)
            if r:
                return r
    return None


def foreign_leaves(exc: BaseException) -> list[BaseException]:
    from adaptix.load_error import LoadError
    if isinstance(exc, BaseExceptionGroup):
        out = []
        for sub in exc.exceptions:
            out += foreign_leaves(sub)
        if not out and not isinstance(exc, LoadError):
            return [exc]
        return out
    return [] if isinstance(exc, LoadError) else [exc]


ITER_KINDS = set(ITER_HINT) | {"tuple_fix"}


def follow_trail(T: dict, node: Node, trail: tuple) -> Optional[tuple]:
    """Translate a real trail into the model's abstract path by walking type and abstract datum alongside.
    Returns None if the trail does not resolve to a position of the datum."""
    from adaptix.struct_trail import ItemKey
    path = []
    cur = node
    for el in trail:
        while T["k"] in ("newtype", "annotated"):
            T = T["a"][0]
        if cur.c == "atom":
            return None
        k = T["k"]
        if k in DICT_HINT:
            if cur.c not in ("dict", "cmap"):
                return None
            is_key = isinstance(el, ItemKey)
            key = el.key if is_key else el
            idx = None
            for i, kn in enumerate(cur.keys):
                kv = kn.value if kn.c == "atom" else None
                if type(kv) is type(key) and (kv == key or (kv != kv and key != key)):  # noqa: PLR0124
                    idx = i
                    break
            if idx is None:
                return None
            path.append(("key" if is_key else "val", idx + 1))
            cur = cur.keys[idx] if is_key else cur.vals[idx]
            T = T["a"][0] if is_key else T["a"][1]
            continue
        if k not in ITER_KINDS:
            return None
        if not isinstance(el, int) or isinstance(el, bool):
            return None
        children = cur.iter_children()
        if cur.c in ("set", "frozenset"):
            # index = position in the iteration order of the concrete set: map back to the abstract child
            conc = list(cur.make())
            if el >= len(conc):
                return None
            target = conc[el]
            idx = None
            for i, ch in enumerate(children):
                if ch.c == "atom" and type(ch.value) is type(target) and (ch.value == target or (target != target)):  # noqa: PLR0124
                    idx = i
                    break
            if idx is None:
                return None
        else:
            idx = el
            if idx < 0 or idx >= len(children):
                return None
        path.append(("idx", idx + 1))
        cur = children[idx]
        if k == "tuple_fix":
            if idx >= len(T["a"]):
                return None
            T = T["a"][idx]
        else:
            T = T["a"][0]
    return tuple(path)


def type_at(T: dict, node: Node, path: tuple) -> tuple[dict, Node]:
    """type and datum node reached by an abstract path"""
    for step, i in path:
        while T["k"] in ("newtype", "annotated"):
            T = T["a"][0]
        if step == "key":
            T, node = T["a"][0], node.keys[i - 1]
        elif step == "val":
            T, node = T["a"][1], node.vals[i - 1]
        else:
            node = node.iter_children()[i - 1]
            T = T["a"][i - 1] if T["k"] == "tuple_fix" else T["a"][0]
    return T, node


def model_paths(errs: list) -> set:
    return {tuple((st["s"], st["i"]) for st in p) for p in errs}
