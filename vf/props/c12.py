"""C12 - a shared retort is safe under concurrent first use.  spec/Conc.tla: the lookup / creation / caching protocol at
the grain of its shared-state operations; TLC checks NoUnboundCall, the hazard invariant, deadlock freedom and
termination for 2-3 threads, for the code as it is (stubs equal by location) and for the repaired protocol.
vf/sched.py runs real threads on the real retort under a baton scheduler whose yield points are those operations;
all schedules with a bounded number of preemptions are enumerated, then random ones; every run's event log is validated
by the TLA+ monitor spec/Trace_Conc.tla."""
import dataclasses
import json
import random
import traceback
from typing import Any, Dict, List, Optional

from ..core import Ctx, stable_hash
from ..par import pmap
from ..sched import Deadlock, Sched, SchedDict
from ..tlc import MachineryError, make_cfg, run_tlc
from ..trace import validate


@dataclasses.dataclass
class Node:
    v: int
    next: Optional["Node"] = None


@dataclasses.dataclass
class MA:
    v: int
    b: Optional["MB"] = None


@dataclasses.dataclass
class MB:
    w: int
    a: Optional[MA] = None


@dataclasses.dataclass
class Z:
    q: int


@dataclasses.dataclass
class WNode:
    v: int
    nxt: Optional["Wrapper"] = None


@dataclasses.dataclass
class Wrapper:
    node: WNode
    z: Z


@dataclasses.dataclass
class Flat:
    x: int
    ys: List[int]


@dataclasses.dataclass
class Flat2:
    a: List[int]
    b: Flat
    c: Optional[Dict[str, int]] = None


SCENARIOS = {
    # two different models that share sub-loaders (List[int], int, the Flat model itself)
    "flat_shared_parts": {"t1": (Flat, {"x": 1, "ys": [1, 2]}), "t2": (Flat2, {"a": [3], "b": {"x": 4, "ys": [5]}, "c": {"k": 6}})},
    "flat_shared_parts_dump": {"t1": (Flat, Flat(1, [1, 2])), "t2": (Flat2, Flat2([3], Flat(4, [5]), {"k": 6}))},
    "self_recursive_same": {"t1": (Node, {"v": 1, "next": {"v": 2, "next": {"v": 3, "next": None}}}),
                            "t2": (Node, {"v": 1, "next": {"v": 2, "next": {"v": 3, "next": None}}})},
    "mutual_recursive_cross": {"t1": (MA, {"v": 1, "b": {"w": 2, "a": {"v": 3, "b": {"w": 4, "a": None}}}}),
                               "t2": (MB, {"w": 2, "a": {"v": 3, "b": {"w": 4, "a": {"v": 5, "b": None}}}})},
    "recursion_through_wrapper": {"t1": (WNode, {"v": 1, "nxt": {"node": {"v": 2, "nxt": {"node": {"v": 3, "nxt": None}, "z": {"q": 1}}}, "z": {"q": 2}}}),
                                  "t2": (Wrapper, {"node": {"v": 2, "nxt": {"node": {"v": 3, "nxt": None}, "z": {"q": 1}}}, "z": {"q": 2}})},
    "flat_same": {"t1": (Flat, {"x": 1, "ys": [1, 2]}), "t2": (Flat, {"x": 1, "ys": [1, 2]})},
    "self_recursive_dump": {"t1": (Node, Node(1, Node(2, Node(3)))), "t2": (Node, Node(1, Node(2, Node(3))))},
    "three_threads": {"t1": (Node, {"v": 1, "next": {"v": 2, "next": None}}), "t2": (Node, {"v": 1, "next": {"v": 2, "next": None}}),
                      "t3": (MA, {"v": 1, "b": {"w": 2, "a": {"v": 3, "b": None}}})},
}


def _describe_call_key(key) -> dict:
    from adaptix._internal.retort.operating_retort import FuncWrapper
    stub = False
    name = "?"
    if isinstance(key, tuple) and key:
        name = getattr(key[0], "__qualname__", getattr(key[0], "__name__", type(key[0]).__name__))

        def has_stub(x, depth=0):
            if isinstance(x, FuncWrapper):
                return True
            if depth < 5 and isinstance(x, (tuple, list)):
                return any(has_stub(y, depth + 1) for y in x)
            if depth < 5 and isinstance(x, dict):
                return any(has_stub(y, depth + 1) for y in x.values())
            if depth < 5 and hasattr(x, "mapping"):        # (Ordered)MappingHashWrapper around the field loaders
                return any(has_stub(y, depth + 1) for y in x.mapping.values())
            return False
        stub = any(has_stub(a) for a in key[1:])
    return {"key": name, "stub": stub}


def _describe_type_key(key) -> dict:
    return {"key": getattr(key, "__name__", repr(key))[:30], "stub": False}


_PATCHED = {}


def install_patches():
    """FuncWrapper creation / binding are logged (binding is a yield point); idempotent, add-only wrappers"""
    from adaptix._internal.retort import operating_retort as op
    if _PATCHED:
        return
    orig_init, orig_set = op.FuncWrapper.__init__, op.FuncWrapper.set_func

    def init(self, key):
        s = _PATCHED.get("sched")
        if s is not None:
            s.local.atomic = getattr(s.local, "atomic", 0) + 1
        try:
            orig_init(self, key)
            if s is not None:
                s.log("stub_create")
        finally:
            if s is not None:
                s.local.atomic -= 1

    def set_func(self, func):
        s = _PATCHED.get("sched")
        if s is not None:
            s.yield_point("pre_bind")        # the scheduler may switch before the state change ...
        if s is not None:
            s.local.atomic = getattr(s.local, "atomic", 0) + 1     # state change + event: one step for the line-level scheduler
        try:
            orig_set(self, func)
            if s is not None:
                s.log("bind")                # ... the event is logged after it (linearisation point)
        finally:
            if s is not None:
                s.local.atomic -= 1
    op.FuncWrapper.__init__ = init
    op.FuncWrapper.set_func = set_func
    _PATCHED["installed"] = True


def run_schedule(scenario: str, decisions: dict, line_level: bool = False) -> dict:
    from adaptix import Retort
    install_patches()
    sched = Sched({int(k): v for k, v in decisions.items()}, timeout=4.0 if line_level else 15.0)
    if line_level:
        from ..sched import make_line_tracer
        sched.line_tracer = make_line_tracer(sched)
    _PATCHED["sched"] = sched
    retort = Retort()
    if not hasattr(retort, "_call_cache") or not hasattr(retort, "_loader_cache"):
        raise MachineryError("attachment point _call_cache / _loader_cache not found on Retort")
    retort._call_cache = SchedDict(sched, "cc", _describe_call_key)
    retort._loader_cache = SchedDict(sched, "lc", _describe_type_key)
    retort._dumper_cache = SchedDict(sched, "dc", _describe_type_key)
    spec = SCENARIOS[scenario]
    dump = scenario.endswith("_dump")

    def program(tp, datum):
        def run():
            f = retort.get_dumper(tp) if dump else retort.get_loader(tp)
            sched.yield_point("call_begin")
            try:
                out = f(datum)
                sched.log("call", ok=True)
            except BaseException:
                sched.log("call", ok=False)
                raise
            # the loader obtained concurrently stays correct for a later call
            out2 = f(datum)
            return repr(out), repr(out2)
        return run
    deadlock = None
    try:
        sched.run({t: program(tp, datum) for t, (tp, datum) in spec.items()})
    except Deadlock as e:
        deadlock = str(e)
    finally:
        _PATCHED["sched"] = None
    ref = Retort()
    expected = {t: (repr((ref.get_dumper(tp) if dump else ref.get_loader(tp))(datum)),) * 2 for t, (tp, datum) in spec.items()}
    failures = []
    if deadlock and line_level:
        # a thread parked at an arbitrary line may hold a real lock (compiler counter, import lock) the others wait for: inconclusive
        return {"scenario": scenario, "decisions": decisions, "failures": [], "steps": sched.step, "trace": [], "evs": [], "inconclusive": True,
                "line_level": True}
    if deadlock:
        failures.append({"what": "deadlock", "detail": deadlock})
    for t in spec:
        r = sched.results.get(t)
        if r is None:
            if not deadlock:
                failures.append({"what": "thread_lost", "detail": t})
        elif r[0] == "exc":
            failures.append({"what": "exception_in_thread", "exc": type(r[1]).__name__, "detail": f"{t}: {type(r[1]).__name__}: {str(r[1])[:120]}"})
        elif tuple(r[1]) != expected[t]:
            failures.append({"what": "result_differs_from_single_threaded", "detail": f"{t}: {r[1]} vs {expected[t]}"})
    # abstract event log for the TLA+ monitor
    evs = []
    for e in sched.events:
        if e["op"] in ("stub_create", "bind"):
            evs.append({"t": e["t"], "op": e["op"], "creator": "-", "stub": False, "ok": True})
        elif e["op"] == "cc_get_result" and e.get("hit"):
            evs.append({"t": e["t"], "op": "cc_hit", "creator": e.get("creator") or "-", "stub": bool(e.get("stub")), "ok": True})
        elif e["op"] == "call":
            evs.append({"t": e["t"], "op": "call", "creator": "-", "stub": False, "ok": bool(e["ok"])})
    return {"scenario": scenario, "decisions": decisions, "failures": failures, "steps": sched.step,
            "trace": [(k, t, r) for k, t, r in sched.trace], "evs": evs, "line_level": line_level}


def _chunk(items) -> list:
    out = []
    for item in items:
        scenario, decisions = item[0], item[1]
        try:
            out.append(run_schedule(scenario, decisions, line_level=len(item) > 2 and item[2]))
        except MachineryError:
            raise
        except Exception:  # noqa: BLE001
            out.append({"scenario": scenario, "decisions": decisions, "machinery": traceback.format_exc()[-700:]})
    return out


def enumerate_schedules(scenario: str, bound: int, budget: int) -> list[dict]:
    """all schedules with at most `bound` preemptions (a forced switch at a yield point), breadth first"""
    base = run_schedule(scenario, {})
    if "machinery" in base:
        raise MachineryError(base["machinery"])
    seen = {json.dumps({}, sort_keys=True)}
    frontier = [({}, base)]
    out = [{}]
    for _ in range(bound):
        nxt = []
        for dec, result in frontier:
            last = max([int(k) for k in dec], default=-1)
            for k, running, runnable in result["trace"]:
                if k <= last:
                    continue
                for alt in runnable:
                    if alt == running:
                        continue
                    d2 = dict(dec)
                    d2[k] = alt
                    key = json.dumps(d2, sort_keys=True)
                    if key in seen:
                        continue
                    seen.add(key)
                    nxt.append(d2)
                    if len(out) + len(nxt) >= budget:
                        break
                if len(out) + len(nxt) >= budget:
                    break
            if len(out) + len(nxt) >= budget:
                break
        # run the new layer to learn its traces (needed to extend it further)
        results = []
        for chunk in pmap(_chunk, [(scenario, d) for d in nxt], chunk=20):
            results += chunk
        frontier = [(r["decisions"], r) for r in results if "trace" in r]
        out += nxt
        yield_results.extend(results)
    return out


yield_results: list = []


def explain(run: dict) -> Optional[str]:
    """does the event log show the known pattern: a call-cache hit on a closure built on another thread's stub, called
    before that thread bound its stub?"""
    unbound: set = set()
    holds: dict = {}
    for e in run["evs"]:
        if e["op"] == "stub_create":
            unbound.add(e["t"])
        elif e["op"] == "bind":
            unbound.discard(e["t"])
        elif e["op"] == "cc_hit" and e["stub"] and e["creator"] not in ("-", e["t"]):
            holds.setdefault(e["t"], set()).add(e["creator"])
        elif e["op"] == "call" and not e["ok"]:
            if holds.get(e["t"], set()) & unbound:
                return "cc_hit_on_foreign_stub_closure;called_before_creator_bind"
    return None


def run(ctx: Ctx) -> None:
    quick = ctx.tier == "quick"
    ctx.rule = ("schedules = sequences of scheduling decisions at the shared-state operations of one real Retort (every operation on "
                "_loader_cache / _dumper_cache / _call_cache, FuncWrapper.set_func, loader entry) for 6 scenarios (self-recursive model "
                "requested by two threads, mutually recursive models from two entry points, recursion through a wrapper model, a flat "
                "model, the dumper side, three threads); all schedules with <= 2 (quick) / <= 3 (thorough) preemptions up to a budget, "
                "then random schedules, then schedules with 1-3 preemptions at random source lines of the library (sys.settrace); each followed by calls on nested data and compared with a single-threaded run; non-trivial = "
                "schedules with at least one preemption")
    ctx.assumptions = ["exhaustive enumeration only at the instrumented yield points; line-level preemption is random (a run in which a parked thread holds "
                       "a real lock the others need is counted as inconclusive)",
                       "CPython dict operations are atomic; the compiler's file-name counter lock is not held across a yield point"]
    # ---- the model -------------------------------------------------------------------------------
    for eq, n, expect in ((False, 2, True), (False, 3, True), (True, 2, False)):
        ths = "{" + ", ".join(f'"t{i}"' for i in range(1, n + 1)) + "}"
        cfg = make_cfg(spec="Spec", constants=dict(Threads=ths, StubEqByLoc=eq),
                       invariants=["NoUnboundCall", "NoForeignUnboundRef", "DeadlockFree"], properties=["Terminates"])
        res = run_tlc(ctx.scratch, "Conc", cfg, tag=f"Conc_{'loc' if eq else 'id'}_{n}", timeout_s=1200, expect_violation=not expect)
        ctx.add_tlc(res, f"{n} threads, stubs equal by {'location (the code as it is)' if eq else 'identity (repaired protocol)'}")
        if expect and not res.ok:
            ctx.model_violation(res, "Conc.tla: the repaired protocol is not safe / live")
        if not expect:
            ctx.extra["model_counterexample_for_code_as_is"] = res.violated
            if res.ok:
                raise MachineryError("Conc.tla with StubEqByLoc=TRUE shows no hazard: the model no longer reflects the code")
    # ---- real threads ------------------------------------------------------------------------------
    bound = 2 if quick else 3
    budget = 700 if quick else 6000
    all_runs: list = []
    rng = random.Random(ctx.seed)
    for scenario in SCENARIOS:
        del yield_results[:]
        base = run_schedule(scenario, {})
        all_runs.append(base)
        enumerate_schedules(scenario, bound, budget)
        all_runs += list(yield_results)
        # random schedules: a random thread at every yield point
        steps = max(base["steps"], 10)
        threads = list(SCENARIOS[scenario])
        rnd = [(scenario, {k: rng.choice(threads) for k in range(-1, steps * 2) if rng.random() < 0.35}) for _ in range(60 if quick else 1500)]
        for chunk in pmap(_chunk, rnd, chunk=20):
            all_runs += chunk
        # line-level schedules: 1-3 preemptions at random source lines of the library (sys.settrace), between the shared-state operations
        base_l = run_schedule(scenario, {}, line_level=True)
        n_lines = max(base_l["steps"], 50)
        rnd_l = []
        for _ in range(40 if quick else 1200):
            ks = sorted(rng.sample(range(n_lines), rng.randint(1, 3)))
            rnd_l.append((scenario, {k: rng.choice(threads) for k in ks} | ({-1: rng.choice(threads)} if rng.random() < 0.5 else {}), True))
        for chunk in pmap(_chunk, rnd_l, chunk=10):
            all_runs += chunk
    machinery = [r["machinery"] for r in all_runs if "machinery" in r]
    if machinery:
        raise MachineryError(f"{len(machinery)} harness failures, first: {machinery[0]}")
    ctx.replayed += len(all_runs)
    ctx.evaluations += len(all_runs)
    for r in all_runs:
        if r["decisions"]:
            ctx.nontrivial.add(stable_hash([r["scenario"], r["decisions"]]))
    ctx.samples += [{"scenario": r["scenario"], "decisions": r["decisions"], "yield_points": r["steps"],
                     "events": [f"{e['t']}:{e['op']}" for e in r["evs"]][:14]} for r in all_runs[1:: max(1, len(all_runs) // 3)][:3]]
    # ---- code -> spec: every event log through the TLA+ monitor ---------------------------------------
    lines = [{"run": i, "evs": r["evs"]} for i, r in enumerate(all_runs)]
    bad = validate(ctx, "Trace_Conc", lines, tag="Conc")
    hazards = {v["l"] - 1: set(v["bad"]) for v in bad}
    ctx.extra["runs_with_hazard_state"] = sum(1 for b in hazards.values() if "hazard_free" in b)
    unexplained = [i for i, b in hazards.items() if "call_explained" in b]
    for i in unexplained[:3]:
        r = all_runs[i]
        ctx.violation({"what": "run_not_explained_by_the_model", "scenario": r["scenario"]},
                      f"scenario {r['scenario']} schedule {r['decisions']}: a call's outcome is not the one Conc.tla predicts from the event log",
                      {"scenario": r["scenario"], "decisions": r["decisions"], "events": r["evs"]})
    # ---- report failures (a hazard alone is reported only through a run in which it manifests) ---------
    failing = [r for r in all_runs if r["failures"]]
    failing.sort(key=lambda r: (len(r["decisions"]), r["steps"]))
    for r in failing:
        for f in r["failures"]:
            pattern = explain(r) if f["what"] == "exception_in_thread" else None
            sig = {"what": f["what"], **({"exc": f["exc"]} if "exc" in f else {}), "pattern": pattern or "-"}
            ctx.violation(sig, f"scenario {r['scenario']}, schedule {r['decisions']}: {f['detail']}",
                          {"scenario": r["scenario"], "decisions": r["decisions"], "failure": f, "events": r["evs"][:80]})
    ctx.extra["failing_runs"] = len(failing)
    ctx.extra["line_level_runs"] = sum(1 for r in all_runs if r.get("line_level"))
    ctx.extra["line_level_inconclusive"] = sum(1 for r in all_runs if r.get("inconclusive"))
    ctx.extra["runs"] = len(all_runs)


def replay(path: str) -> int:
    data = json.load(open(path))
    r = run_schedule(data["scenario"], data["decisions"])
    print(json.dumps(r["failures"], indent=1))
    if r["failures"]:
        print(f"VIOLATION property=C12 replay={path}")
        return 1
    return 0
