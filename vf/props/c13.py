"""C13 - a generated converter equals the field-wise construction the linking rules fix.  spec/Link.tla: the documented
linking search (recipe order; link / link_constant / link_function / from_param; parameters right-to-left before fields
for top-level destination fields only); TLC enumerates programs (source / destination / nested field sets, parameter
lists, recipes) with the symbolic plan of every destination field.  Each program is built with real dataclasses,
impl_converter and the public providers; the converted object must equal the evaluation of the plan on tagged values."""
import copy
from fractions import Fraction
import dataclasses
import inspect
import json
import os
import random
import traceback
from typing import Any

from ..core import Ctx, stable_hash
from ..par import pmap
from ..tlc import MachineryError, make_cfg, run_tlc

TOP_VALUES = {"a": 1, "b": 2, "c": 3}
NESTED_VALUES = {"a": 11, "b": 12, "c": 13}
PARAM_VALUES = {"p": 101, "a": 102, "b": 103}
DEFAULT_VALUES = {"a": 5001, "b": 5002, "c": 5003}
CONST_VALUE = 777
_CONST = {"cur": CONST_VALUE}      # the constant of the current name table (a table may ask for one whose literal form calls builtins)
FUNC_VALUE = 900


def build_recipe(case, S, D, SNm, DNm, nm):
    from adaptix import P
    from adaptix.conversion import allow_unlinked_optional, from_param, link, link_constant, link_function

    def N(x):
        return nm.get(x, x)

    def pred(name, mode, top_cls, nested_cls):
        if mode == "any":
            return N(name)
        return getattr(P[top_cls if mode == "top" else nested_cls], N(name)) if N(name).isidentifier() else P[top_cls if mode == "top" else nested_cls][N(name)]
    recipe = []
    for pr in case["recipe"]:
        dst = pred(pr["dst"], pr["dm"], D, DNm)
        if pr["t"] == "link":
            recipe.append(link(pred(pr["src"], pr["sm"], S, SNm), dst))
        elif pr["t"] == "plink":
            recipe.append(link(from_param(N(pr["p"])), dst))
        elif pr["t"] == "const":
            # (a value without literal form - it is == the tag - makes the generator register an id of its own: constant_N)
            recipe.append(link_constant(dst, value=Fraction(CONST_VALUE) if nm.get("_nonliteral") else nm.get("_const", CONST_VALUE)))
        elif pr["t"] == "allow":
            recipe.append(allow_unlinked_optional(dst))
        else:
            def the_func(model):
                return FUNC_VALUE
            if nm.get("the_func"):
                the_func.__name__ = the_func.__qualname__ = nm["the_func"]
            recipe.append(link_function(the_func, dst))
    return recipe


def build(case: dict, names: dict = None):
    """returns (S, D, SN, DN, converter-or-exception, argument values)"""
    from adaptix import P
    from adaptix.conversion import allow_unlinked_optional, from_param, impl_converter, link, link_constant, link_function
    nm = names or {}

    def N(x):
        return nm.get(x, x)
    SNm = dataclasses.make_dataclass(N("SrcNested"), [(N(f), int) for f in sorted(case["SN"])])
    DNm = dataclasses.make_dataclass(N("DstNested"), [(N(f), int) for f in sorted(case["DN"])])
    S = dataclasses.make_dataclass(N("Src"), [((N(f), int) if f != "n" else (N("n"), SNm)) for f in sorted(case["SF"])])
    D = dataclasses.make_dataclass(N("Dst"), [((N(f), int, dataclasses.field(default=DEFAULT_VALUES[f])) if f in case.get("DO", ()) else (N(f), int)) if f != "n"
                                              else (N("n"), DNm) for f in sorted(case["DF"])])

    recipe = build_recipe(case, S, D, SNm, DNm, nm)
    params = [N(p) for p in case["PS"]]
    src_name = N("srcmodel")
    sig = inspect.Signature(
        [inspect.Parameter(src_name, inspect.Parameter.POSITIONAL_OR_KEYWORD, annotation=S)]
        + [inspect.Parameter(p, inspect.Parameter.POSITIONAL_OR_KEYWORD, annotation=int) for p in params],
        return_annotation=D)

    def stub(*a, **k):
        ...
    stub.__signature__ = sig
    stub.__name__ = N("convert_it")
    stub.__annotations__ = {src_name: S, **{p: int for p in params}, "return": D}
    try:
        conv = impl_converter(recipe=recipe)(stub)
    except Exception as e:  # noqa: BLE001
        conv = e
    src = S(**{N(f): (TOP_VALUES[f] if f != "n" else SNm(**{N(g): NESTED_VALUES[g] for g in case["SN"]})) for f in case["SF"]})
    args = [PARAM_VALUES[p] for p in case["PS"]]
    return S, D, SNm, DNm, conv, src, args, sig


def _recipe_only(case, S, D, SNm, DNm, nm):
    return build_recipe(case, S, D, SNm, DNm, nm)


def term_value(t: dict, case: dict) -> Any:
    k = t["k"]
    if k == "src":
        return (TOP_VALUES if t["level"] == "top" else NESTED_VALUES)[t["n"]]
    if k == "param":
        return PARAM_VALUES[t["n"]]
    if k == "const":
        return _CONST["cur"]
    if k == "func":
        return FUNC_VALUE
    if k == "default":
        return None        # filled by the caller: the declared default of the field
    raise ValueError(k)


def prog_str(case: dict) -> str:
    rs = []
    for pr in case["recipe"]:
        if pr["t"] == "link":
            rs.append(f"link({pr['sm']}.{pr['src']} -> {pr['dm']}.{pr['dst']})")
        elif pr["t"] == "plink":
            rs.append(f"link(from_param({pr['p']}) -> {pr['dm']}.{pr['dst']})")
        else:
            rs.append(f"{pr['t']}({pr['dm']}.{pr['dst']})")
    return (f"Src{sorted(case['SF'])} n{sorted(case['SN'])} -> Dst{sorted(case['DF'])} n{sorted(case['DN'])} params{case['PS']} "
            f"recipe[{', '.join(rs)}]")


def run_case(case: dict, out: dict, names: dict = None) -> None:
    from adaptix import ProviderNotFoundError
    nm = names or {}
    _CONST["cur"] = nm.get("_const", CONST_VALUE)

    def N(x):
        return nm.get(x, x)
    S, D, SNm, DNm, conv, src, args, sig = build(case, names)
    out["runs"] += 1

    def add(what, detail):
        out["bad"].append({"sig": {"what": what, "recipe_kinds": sorted({p["t"] for p in case["recipe"]}), "params": bool(case["PS"]),
                                   **({"names": nm.get("_table")} if nm else {})},
                           "detail": f"{prog_str(case)}: {detail}", "size": len(json.dumps(case)), "case": case})
    if isinstance(conv, Exception):
        if isinstance(conv, ProviderNotFoundError):
            if case["creatable"]:
                add("creatable_converter_refused", "impl_converter raised ProviderNotFoundError although every destination field has a documented source")
            return
        add("converter_creation_crashes", f"{type(conv).__name__}: {str(conv)[:160]}")
        return
    if not case["creatable"]:
        add("converter_created_without_source", "a destination field has no documented source, yet the converter was created")
        return
    before = copy.deepcopy(src)
    try:
        res = conv(src, *args)
    except Exception as e:  # noqa: BLE001
        add("converter_raises", f"{type(e).__name__}: {str(e)[:140]}")
        return
    if src != before:
        add("source_mutated", f"source object changed: {before!r} -> {src!r}")
    if not isinstance(res, D):
        add("wrong_result_class", f"{res!r}")
        return
    for f, t in case["top"].items():
        got, want = getattr(res, N(f)), (DEFAULT_VALUES[f] if t["k"] == "default" else term_value(t, case))
        if got != want:
            add("field_from_wrong_source", f"Dst.{f} = {got!r}, the linking rules give {t['k']}:{t['level']}.{t['n']} = {want!r}")
    if "n" in case["DF"]:
        inner = getattr(res, N("n"))
        if not isinstance(inner, DNm):
            add("nested_not_converted", f"Dst.n = {inner!r}")
        else:
            for f, t in case["nested"].items():
                got, want = getattr(inner, N(f)), term_value(t, case)
                if got != want:
                    add("field_from_wrong_source", f"Dst.n.{f} = {got!r}, the linking rules give {t['k']}:{t['level']}.{t['n']} = {want!r}")
    try:
        got_sig = inspect.signature(conv)
    except Exception as e:  # noqa: BLE001
        got_sig = f"inspect.signature raises {type(e).__name__}: {str(e)[:80]}"
    if got_sig != sig or conv.__name__ != N("convert_it"):
        add("stub_signature_not_preserved", f"{got_sig} / {conv.__name__}")
    # the same pair asked from the module-level retort with another recipe, then with this one again: each call obeys its own recipe
    if not case["PS"] and case["top"]:
        from adaptix import P
        from adaptix.conversion import get_converter, link_constant
        f0 = sorted(case["top"])[0]
        rec = _recipe_only(case, S, D, SNm, DNm, nm)
        try:
            c_other = get_converter(S, D, recipe=[link_constant(P[D][N(f0)], value=555), *rec])
            c_this = get_converter(S, D, recipe=rec)
            c_other2 = get_converter(S, D, recipe=[link_constant(P[D][N(f0)], value=555), *rec])
            v1, v2, v3 = getattr(c_other(src), N(f0)), getattr(c_this(src), N(f0)), getattr(c_other2(src), N(f0))
            want2 = DEFAULT_VALUES[f0] if case["top"][f0]["k"] == "default" else term_value(case["top"][f0], case)
            if (v1, v2, v3) != (555, want2, 555):
                add("recipe_of_an_earlier_get_converter_call_reused", f"Dst.{f0} via three get_converter calls with alternating recipes: {(v1, v2, v3)}, documented {(555, want2, 555)}")
        except Exception as e:  # noqa: BLE001
            add("get_converter_with_recipe_raises", f"{type(e).__name__}: {str(e)[:120]}")
    # a second, equal call gives an equal, distinct object (C20 rides along)
    res2 = conv(src, *args)
    if res2 != res or res2 is res:
        add("repeat_differs", f"{res!r} vs {res2!r}")


def _chunk(items) -> dict:
    out: dict = {"runs": 0, "bad": [], "machinery": []}
    for case, names in items:
        try:
            run_case(case, out, names)
        except Exception:  # noqa: BLE001
            out["machinery"].append(f"harness error on {prog_str(case)}: {traceback.format_exc()[-700:]}")
    best: dict = {}
    for b in out["bad"]:
        k = stable_hash(b["sig"])
        if k not in best or b["size"] < best[k]["size"]:
            best[k] = b
    out["bad"] = list(best.values())
    return out


def enumerate_cases(ctx: Ctx, max_recipe: int, simulate: int = 0):
    cfg = make_cfg(constants=dict(MaxRecipe=max_recipe, EmitCases=True, Slice='"all"'),
                   invariants=["FirstProviderWins", "ParamBeatsFieldTopOnly", "EmitCase"])
    if simulate:
        res = run_tlc(ctx.scratch, "Link", cfg, tag=f"Link_sim{max_recipe}", timeout_s=1200, simulate={"num": simulate, "depth": max_recipe + 3},
                      seed=ctx.seed + 11, workers=4)
        ctx.add_tlc(res, f"simulation: recipes of <= {max_recipe} providers, {simulate} behaviours")
        if not res.ok:
            ctx.model_violation(res, "Link.tla (simulation)")
        seen, out = set(), []
        for r in res.records():
            k = stable_hash(r)
            if k not in seen:
                seen.add(k)
                out.append(r)
        return out
    res = run_tlc(ctx.scratch, "Link", cfg, tag=f"Link_{max_recipe}", timeout_s=3000)
    ctx.add_tlc(res, f"programs with recipes of <= {max_recipe} link providers; first provider wins, parameters beat fields at top level only")
    if not res.ok:
        ctx.model_violation(res, "Link.tla: the documented linking search is not first-match")
    return list(res.records())


def replay_cases(ctx: Ctx, cases: list, names=None, cat_filter=None) -> list:
    bad, machinery = [], []
    for o in pmap(_chunk, [(c, names) for c in cases], chunk=40):
        ctx.replayed += o["runs"]
        bad += o["bad"]
        machinery += o["machinery"]
    if machinery:
        raise MachineryError(f"{len(machinery)} harness failures, first: {machinery[0]}")
    merged: dict = {}
    for b in bad:
        k = stable_hash(b["sig"])
        if k not in merged or b["size"] < merged[k]["size"]:
            merged[k] = b
    return sorted(merged.values(), key=lambda b: b["size"])


def run(ctx: Ctx) -> None:
    quick = ctx.tier == "quick"
    ctx.rule = ("programs = (source fields, nested source fields, destination fields, nested destination fields, parameter list, recipe of "
                "<= MaxRecipe link providers over link / link(from_param) / link_constant / link_function with bare-name or class-bound "
                "predicates), enumerated by TLC from spec/Link.tla with the symbolic plan of every destination field; each built with "
                "dataclasses + impl_converter and run on tagged values; recipes of length >= 2 are sampled (8 000 / 400 000 behaviours of tlc -simulate; all recipes of length 2 with VERIF_C13_EXHAUSTIVE2=1); non-trivial = "
                "programs with a recipe or parameters")
    ctx.assumptions = ["dataclass models (other kinds: C17); int fields with distinct tagged values identify the source of every destination value"]
    cases = enumerate_cases(ctx, 1)
    if quick:
        cases += [c for c in enumerate_cases(ctx, 3, simulate=8000) if len(c["recipe"]) >= 2]
    elif os.environ.get("VERIF_C13_EXHAUSTIVE2"):
        cases = enumerate_cases(ctx, 2)          # all recipes of length <= 2: 13.5 million programs, more than an hour on 16 cores
    else:
        cases += [c for c in enumerate_cases(ctx, 3, simulate=400000) if len(c["recipe"]) >= 2]
    for c in cases:
        if c["recipe"] or c["PS"]:
            ctx.nontrivial.add(stable_hash(c))
    ctx.samples += [{"program": prog_str(c), "creatable": c["creatable"], "plan_top": c["top"], "plan_nested": c["nested"]}
                    for c in cases[:: max(1, len(cases) // 4)][:4]]
    for b in replay_cases(ctx, cases):
        ctx.violation(b["sig"], f"{b['sig']['what']}: {b['detail'][:300]}", {"case": b["case"], "detail": b["detail"]})
    constants_and_defaults(ctx)
    between_kinds(ctx)
    coercion_through_containers(ctx)
    ctx.evaluations += ctx.replayed
    ctx.exhaustive = bool(os.environ.get("VERIF_C13_EXHAUSTIVE2")) and not quick


HOSTILE_NAME_TABLES = [
    {"_table": 0, "a": "data", "b": "ctx", "c": "coercer", "n": "result", "p": "self", "srcmodel": "dst", "SrcNested": "data", "DstNested": "ctx",
     "Src": "class_", "Dst": "print", "convert_it": "converter"},
    {"_table": 1, "a": "constant_0", "b": "constant_1", "c": "lambda_", "n": "field", "p": "param", "srcmodel": "a_model", "SrcNested": "Src",
     "DstNested": "Dst", "Src": "int", "Dst": "list", "convert_it": "exec"},
    {"_table": 3, "a": "a", "b": "b", "c": "c", "n": "n", "p": "p", "srcmodel": "src", "SrcNested": "a-b", "DstNested": "class", "Src": "1abc",
     "Dst": "with space", "convert_it": "conv-erter\nx = CANARY()"},
    # the function name coincides with an identifier of the generated module / is made of \w characters that are not identifier characters
    {"_table": 4, "a": "a", "b": "b", "c": "c", "n": "n", "p": "p", "srcmodel": "src", "SrcNested": "Coercer", "DstNested": "coercer", "Src": "S",
     "Dst": "D", "convert_it": "coercer"},
    {"_table": 5, "a": "a", "b": "b", "c": "c", "n": "n", "p": "p", "srcmodel": "src", "SrcNested": "N²", "DstNested": "M\u0660", "Src": "S²",
     "Dst": "D①", "convert_it": "a²"},
    # classes and functions named like the ids the converter generator makes up for itself (constant_N, func_N, accessor_N)
    {"_table": 6, "a": "a", "b": "b", "c": "c", "n": "n", "p": "p", "srcmodel": "src", "SrcNested": "constant_1", "DstNested": "func_0",
     "Src": "accessor_0", "Dst": "constant_0", "convert_it": "func_1", "the_func": "constant_0", "_nonliteral": True},
    {"_table": 7, "a": "a", "b": "b", "c": "c", "n": "n", "p": "p", "srcmodel": "src", "SrcNested": "Same", "DstNested": "Other",
     "Src": "Same", "Dst": "Other", "convert_it": "convert_Same_to_Other", "the_func": "coerce_Same_to_Other", "_nonliteral": True},
    # the function is named like a constant of the generated module itself / like the one dunder name `def` refuses
    {"_table": 8, "a": "a", "b": "b", "c": "c", "n": "n", "p": "p", "srcmodel": "src", "SrcNested": "SN", "DstNested": "DN", "Src": "S", "Dst": "D",
     "convert_it": "_update_wrapper"},
    {"_table": 9, "a": "a", "b": "b", "c": "c", "n": "n", "p": "p", "srcmodel": "src", "SrcNested": "SN", "DstNested": "DN", "Src": "S", "Dst": "D",
     "convert_it": "_closure_signature"},
    {"_table": 10, "a": "a", "b": "b", "c": "c", "n": "n", "p": "p", "srcmodel": "src", "SrcNested": "SN", "DstNested": "DN", "Src": "__debug__", "Dst": "D",
     "convert_it": "__debug__"},
    # classes / functions named like the builtins that the LITERAL FORM of a constant calls (frozenset({...}), range(..), bytearray(..))
    {"_table": 11, "a": "a", "b": "b", "c": "c", "n": "n", "p": "p", "srcmodel": "src", "SrcNested": "slice", "DstNested": "range", "Src": "bytearray",
     "Dst": "frozenset", "convert_it": "set", "the_func": "frozenset", "_const": frozenset({("tag", 7), range(3)})},
    {"_table": 2, "a": "переменная", "b": "ñ", "c": "δ", "n": "变量", "p": "π", "srcmodel": "источник", "SrcNested": "Ünï", "DstNested": "Ωmega",
     "Src": "Модель", "Dst": "Цель", "convert_it": "преобразовать"},
]


def hostile_converter_names(ctx: Ctx) -> None:
    """C19, converter side: the same programs under hostile field / parameter / class / function names"""
    cases = enumerate_cases(ctx, 1)
    rng = random.Random(ctx.seed + 3)
    rng.shuffle(cases)
    cases = cases[:2500]
    n_bad = 0
    for table in HOSTILE_NAME_TABLES:
        for b in replay_cases(ctx, cases, names=table):
            b["sig"]["via"] = "converter"
            ctx.violation(b["sig"], f"converter under hostile names (table {table['_table']}): {b['sig']['what']}: {b['detail'][:240]}",
                          {"case": b["case"], "names": table, "detail": b["detail"]})
            n_bad += 1
    ctx.extra["converter_programs_under_hostile_names"] = len(cases) * len(HOSTILE_NAME_TABLES)
    constants_and_defaults(ctx)


class _ReprIsCode:
    """a default value whose repr is a code fragment"""
    calls = []

    def __repr__(self):
        return "__import__('builtins').CANARY()"

    def __eq__(self, o):
        return isinstance(o, _ReprIsCode)

    def __hash__(self):
        return 7


def constants_and_defaults(ctx: Ctx) -> None:
    """constants (link_constant values, parameter defaults of the stub) are data: they reach the result unchanged and their
    text / repr is never executed or parsed as source"""
    import builtins
    from decimal import Decimal

    from adaptix import P
    from adaptix.conversion import get_converter, impl_converter, link_constant
    fired: list = []
    builtins.CANARY = lambda *a, **k: fired.append(1) or "canary"

    @dataclasses.dataclass
    class S:
        a: int

    @dataclasses.dataclass
    class D:
        a: int
        k: Any
    values = ["x\ny", "tab\there", 'quote"s', "it's", "back\\slash", "{brace}", "$d", '"""', "", " lead", "x\n        y", "CANARY()", b"by\ntes",
              Decimal("1"), 1.5, float("inf"), (1,), (Decimal(1),), [1, "a\nb"], {"k\n": "v"}, None, True, 0, frozenset({1})]
    for v in values:
        ctx.replayed += 1
        try:
            conv = get_converter(S, D, recipe=[link_constant(P[D].k, value=v)])
            got = conv(S(1)).k
        except Exception as e:  # noqa: BLE001
            ctx.violation({"what": "link_constant_raises", "value_type": type(v).__name__}, f"link_constant(value={v!r}): {type(e).__name__}: {str(e)[:120]}", {"value": repr(v)})
            continue
        same = type(got) is type(v) and (got == v or (got != got and v != v))  # noqa: PLR0124
        if not same:
            ctx.violation({"what": "constant_changed_by_code_generation", "value_type": type(v).__name__},
                          f"link_constant(value={v!r}) arrived as {got!r}", {"value": repr(v), "arrived": repr(got)})
    # parameter defaults of the stub are kept as objects, never rendered through repr into source
    for dflt in (_ReprIsCode(), Decimal("2.5"), "x\ny", float("nan"), [1]):
        ctx.replayed += 1

        def stub(src: S, k: Any = dflt) -> D:
            ...
        n0 = len(fired)
        try:
            conv = impl_converter(stub)
            r = conv(S(1))
        except Exception as e:  # noqa: BLE001
            ctx.violation({"what": "stub_parameter_default_breaks_generation", "default_type": type(dflt).__name__},
                          f"impl_converter(stub with default {type(dflt).__name__}): {type(e).__name__}: {str(e)[:120]}", {"default": type(dflt).__name__})
            continue
        if len(fired) != n0:
            ctx.violation({"what": "repr_of_parameter_default_executed", "default_type": type(dflt).__name__},
                          "the repr of a parameter default was executed as code while generating the converter", {"default": type(dflt).__name__})
        if not (r.k is dflt or r.k == dflt or (r.k != r.k and dflt != dflt)):  # noqa: PLR0124
            ctx.violation({"what": "parameter_default_not_preserved", "default_type": type(dflt).__name__}, f"default {dflt!r} arrived as {r.k!r}", {})
    ctx.extra["constant_and_default_cases"] = len(values) + 5
    keyword_destination_parameters(ctx)


def keyword_destination_parameters(ctx: Ctx) -> None:
    """destination parameters / source keys whose name is a keyword or no identifier (TypedDict keys, pydantic aliases) are data
    for the generated converter: passed to the constructor, never written as `name=` into the source"""
    from typing import TypedDict

    import pydantic

    from adaptix.conversion import get_converter
    n = 0
    for kw in ("class", "from", "None", "match", "lambda"):
        TD = TypedDict("TD", {"a": int, kw: str})                              # noqa: UP013
        S = dataclasses.make_dataclass("S", [("a", int), (kw + "_", str)])
        ns = {"pydantic": pydantic}
        exec(f"class M(pydantic.BaseModel):\n    a: int\n    {kw}_: str = pydantic.Field(alias={kw!r})\n", ns)  # noqa: S102
        M = ns["M"]
        TD_ = TypedDict("TD_", {"a": int, kw + "_": str})                      # noqa: UP013
        for name, src_t, dst_t, src, want in (
            ("typeddict_to_typeddict", TD, TD, {"a": 1, kw: "x"}, {"a": 1, kw: "x"}),
            ("typeddict_to_dataclass", TD_, S, {"a": 1, kw + "_": "x"}, S(1, "x")),
            ("dataclass_to_pydantic_alias", S, M, S(1, "x"), M(**{"a": 1, kw: "x"})),
            ("pydantic_alias_to_pydantic_alias", M, M, M(**{"a": 1, kw: "x"}), M(**{"a": 1, kw: "x"})),
        ):
            n += 1
            try:
                got = get_converter(src_t, dst_t)(src)
            except Exception as e:  # noqa: BLE001
                ctx.violation({"what": "keyword_name_breaks_converter_generation", "shape": name, "exc": type(e).__name__},
                              f"{name} with the name {kw!r}: {type(e).__name__}: {str(e)[:160]}", {"name": kw, "shape": name})
                continue
            if got != want:
                ctx.violation({"what": "keyword_name_wrong_result", "shape": name}, f"{name} with the name {kw!r}: {got!r} instead of {want!r}", {"name": kw})
    for alias in ("my-x", "with space", "1abc", "it's", ""):
        ns = {"pydantic": pydantic}
        exec(f"class M(pydantic.BaseModel):\n    a: int\n    f: str = pydantic.Field(alias={alias!r})\n", ns)  # noqa: S102
        M = ns["M"]
        S = dataclasses.make_dataclass("S", [("a", int), ("f", str)])
        n += 1
        try:
            got = get_converter(S, M)(S(1, "x"))
            if not (got.a == 1 and got.f == "x"):
                ctx.violation({"what": "keyword_name_wrong_result", "shape": "non_identifier_alias"}, f"alias {alias!r}: {got!r}", {"alias": alias})
        except Exception as e:  # noqa: BLE001
            ctx.violation({"what": "keyword_name_breaks_converter_generation", "shape": "non_identifier_alias", "exc": type(e).__name__},
                          f"dataclass -> pydantic model with alias {alias!r}: {type(e).__name__}: {str(e)[:160]}", {"alias": alias})
    ctx.replayed += n


def between_kinds(ctx: Ctx) -> None:
    """'all pairs of models (all model kinds ...)': the field-wise copy between every ordered pair of model kinds of one logical model
    (spec/Kinds.tla ConvertObj; shared with C17) - constructor parameters that are spelled differently from the field (attrs _private),
    keyword-only parameters, TypedDict keys, SQLAlchemy columns"""
    from .c17 import converters
    converters(ctx)


def coercion_through_containers(ctx: Ctx) -> None:
    """'values are coerced recursively through nested models, Optional, iterables and dicts': for model pairs placed as elements,
    dict values, dict KEYS and Optional payloads every converted value must be of the destination's static type (Convert.tla
    Coercible; runner and value oracle shared with C14)"""
    from . import c14
    m = lambda n: {"k": "model", "a": [], "v": [n]}  # noqa: E731
    i, s_ = {"k": "int", "a": [], "v": []}, {"k": "str", "a": [], "v": []}
    out: dict = {"bad": [], "machinery": [], "runs": 0, "refused": 0, "created": 0}
    pairs = [(m("m1"), m("m2")), (m("m1"), m("m1")), ({"k": "list", "a": [m("m1")], "v": []}, {"k": "list", "a": [m("m2")], "v": []}),
             ({"k": "dict", "a": [m("m1"), i], "v": []}, {"k": "dict", "a": [m("m2"), i], "v": []}),
             ({"k": "dict", "a": [m("m1"), m("m1")], "v": []}, {"k": "dict", "a": [m("m2"), m("m2")], "v": []}),
             ({"k": "dict", "a": [s_, m("m1")], "v": []}, {"k": "Mapping", "a": [s_, m("m2")], "v": []})]
    for s, d in pairs:
        for c in ("direct", "optional", "list", "dictval"):
            c14.run_pair({"s": s, "d": d, "ctx": c, "coercible": True, "asis": False}, out)
    if out["machinery"] or out["refused"]:
        raise MachineryError(f"coercion_through_containers: {out['machinery'][:1]} refused={out['refused']}")
    for b in out["bad"]:
        ctx.violation({**b["sig"], "via": "containers"}, f"{b['sig']['what']}: {b['detail'][:260]}", {"case": b["case"], "detail": b["detail"]})
    ctx.replayed += out["runs"]


def replay(path: str) -> int:
    data = json.load(open(path))
    out: dict = {"runs": 0, "bad": [], "machinery": []}
    if "case" not in data:
        print(data.get("what"))
        print(f"VIOLATION property=C13 replay={path}")
        return 1
    run_case(data["case"], out, data.get("names"))
    for b in out["bad"]:
        print(b["sig"], b["detail"][:300])
    if out["bad"]:
        print(f"VIOLATION property=C13 replay={path}")
        return 1
    return 0
