"""C14 - implicit coercion is type-sound; unlinkable or uncoercible fields are refused.  spec/Convert.tla: the documented
Coercible relation and a value-set semantics; MC_Convert.tla: TLC checks reflexivity, soundness of the as-is rules and
monotonicity under the compound rules and enumerates all ordered pairs of the type pool x 4 contexts with the creation
verdict.  Each pair is replayed: get_converter(Src, Dst) for one-field models must succeed exactly when the relation holds
is NOT demanded (the property is an 'only when'): it must FAIL whenever the relation does not hold, and a created
converter must put a value of the destination's static type into the destination."""


import collections
import dataclasses
import json
import traceback
import typing
from typing import Any, Dict, FrozenSet, Generic, Iterable, List, Literal, Mapping, NewType, Optional, Sequence, Set, Tuple, TypeVar, Union

from ..core import Ctx, stable_hash
from ..par import pmap
from ..tlc import MachineryError, make_cfg, run_tlc

TV = TypeVar("TV")


class A:
    def __eq__(self, o):
        return type(o) is type(self)

    def __hash__(self):
        return 1

    def __repr__(self):
        return type(self).__name__ + "()"


class B(A):
    pass


class G(Generic[TV]):
    pass


NT = NewType("NT", int)


@dataclasses.dataclass(frozen=True)
class M1:
    a: int
    b: str


@dataclasses.dataclass(frozen=True)
class M2:
    a: int


@dataclasses.dataclass(frozen=True)
class M3:
    a: str
    c: int = 0


MODELS = {"m1": M1, "m2": M2, "m3": M3}
SCALARS = {"int": int, "str": str, "bool": bool, "float": float, "bytes": bytes, "None": None, "Any": Any, "A": A, "B": B,
           "G_int": G[int], "G_str": G[str]}
ITER = {"list": List, "set": Set, "frozenset": FrozenSet, "deque": typing.Deque, "Sequence": Sequence, "Iterable": Iterable}
LITS = {"la": "a", "lb": "b"}


def hint(t: dict) -> Any:
    k = t["k"]
    if k in SCALARS:
        return SCALARS[k]
    if k == "model":
        return MODELS[t["v"][0]]
    if k == "newtype":
        return NT
    if k == "literal":
        return Literal[tuple(LITS[x] for x in t["v"])]
    args = [hint(a) for a in t["a"]]
    if k == "union":
        return Union[tuple(args)]
    if k == "tuple_var":
        return Tuple[args[0], ...]
    if k in ("tuple0", "tuple1", "tuple2"):
        return Tuple[tuple(args)]
    if k in ITER:
        return ITER[k][args[0]]
    if k in ("dict", "Mapping"):
        return (Dict if k == "dict" else Mapping)[args[0], args[1]]
    raise ValueError(k)


def wrap(ctx: str, t: dict) -> dict:
    if ctx == "direct":
        return t
    if ctx == "optional":
        return {"k": "union", "a": [t, {"k": "None", "a": [], "v": []}], "v": []}
    if ctx == "list":
        return {"k": "list", "a": [t], "v": []}
    if ctx == "dictkey":
        return {"k": "dict", "a": [t, {"k": "int", "a": [], "v": []}], "v": []}
    return {"k": "dict", "a": [{"k": "str", "a": [], "v": []}, t], "v": []}


def tstr(t: dict) -> str:
    k = t["k"]
    if k == "literal":
        return "Literal[" + ",".join(t["v"]) + "]"
    if k == "model":
        return t["v"][0]
    if not t["a"]:
        return k
    return k + "[" + ",".join(tstr(a) for a in t["a"]) + "]"


def sample_values(t: dict) -> list:
    """some values of the static type t"""
    k = t["k"]
    if k == "int":
        return [7, True]
    if k == "bool":
        return [True]
    if k == "str":
        return ["s", "a"]
    if k == "float":
        return [1.5]
    if k == "bytes":
        return [b"x"]
    if k == "None":
        return [None]
    if k == "Any":
        return [object(), 3, "s"]
    if k == "A":
        return [A(), B()]
    if k == "B":
        return [B()]
    if k in ("G_int", "G_str"):
        return [G()]
    if k == "newtype":
        return [NT(5)]
    if k == "literal":
        return [LITS[x] for x in t["v"]]
    if k == "model":
        return [{"m1": M1(1, "x"), "m2": M2(2), "m3": M3("y", 4)}[t["v"][0]]]
    if k == "union":
        out = []
        for a in t["a"]:
            out += sample_values(a)
        return out
    if k in ("dict", "Mapping"):
        return [{}] + [{kk: vv} for kk in sample_values(t["a"][0])[:2] for vv in sample_values(t["a"][1])[:2]]
    if k in ("tuple0", "tuple1", "tuple2"):
        return [tuple(sample_values(a)[0] for a in t["a"])]
    elems = sample_values(t["a"][0])
    ctor = {"list": list, "set": set, "frozenset": frozenset, "deque": collections.deque, "tuple_var": tuple, "Sequence": list, "Iterable": list}[k]
    try:
        return [ctor([]), ctor(elems[:2])] + [ctor([e]) for e in elems]
    except TypeError:
        return [ctor([])]


def conforms(v: Any, t: dict) -> bool:
    """is the runtime value v a value of the static type t?"""
    k = t["k"]
    if k == "Any":
        return True
    if k == "None":
        return v is None
    if k == "int":
        return isinstance(v, int)
    if k == "bool":
        return isinstance(v, bool)
    if k in ("str", "float", "bytes"):
        return isinstance(v, {"str": str, "float": float, "bytes": bytes}[k])
    if k == "A":
        return isinstance(v, A)
    if k == "B":
        return isinstance(v, B)
    if k in ("G_int", "G_str"):
        return isinstance(v, G)
    if k == "newtype":
        return isinstance(v, int)
    if k == "literal":
        return any(type(v) is type(LITS[x]) and v == LITS[x] for x in t["v"])
    if k == "model":
        cls = MODELS[t["v"][0]]
        if not isinstance(v, cls):
            return False
        hints = typing.get_type_hints(cls)
        return all(conforms(getattr(v, f.name), _py_to_t(hints[f.name])) for f in dataclasses.fields(cls))
    if k == "union":
        return any(conforms(v, a) for a in t["a"])
    if k in ("dict", "Mapping"):
        return isinstance(v, dict) and all(conforms(kk, t["a"][0]) and conforms(vv, t["a"][1]) for kk, vv in v.items())
    if k in ("tuple0", "tuple1", "tuple2"):
        return isinstance(v, tuple) and len(v) == len(t["a"]) and all(conforms(e, a) for e, a in zip(v, t["a"]))
    want = {"list": list, "set": set, "frozenset": frozenset, "deque": collections.deque, "tuple_var": tuple, "Sequence": (list, tuple),
            "Iterable": (list, tuple, set, frozenset)}[k]
    return isinstance(v, want) and all(conforms(e, t["a"][0]) for e in v)


def _py_to_t(h) -> dict:
    return {int: {"k": "int", "a": [], "v": []}, str: {"k": "str", "a": [], "v": []}}[h]


def run_pair(case: dict, out: dict) -> None:
    from adaptix import ProviderNotFoundError
    from adaptix.conversion import get_converter
    s, d = wrap(case["ctx"], case["s"]), wrap(case["ctx"], case["d"])
    try:
        hs, hd = hint(s), hint(d)
    except Exception as e:  # noqa: BLE001
        out["machinery"].append(f"gamma failed for {tstr(s)} -> {tstr(d)}: {e!r}")
        return
    src = dataclasses.make_dataclass("Src", [("x", hs)])
    dst = dataclasses.make_dataclass("Dst", [("x", hd)])
    out["runs"] += 1

    def add(what, detail):
        out["bad"].append({"sig": {"what": what, "src_kind": s["k"], "dst_kind": d["k"], "ctx": case["ctx"]},
                           "detail": f"{tstr(s)} -> {tstr(d)}: {detail}", "size": len(tstr(s)) + len(tstr(d)), "case": case})
    try:
        conv = get_converter(src, dst)
    except ProviderNotFoundError:
        out["refused"] += 1
        return
    except Exception as e:  # noqa: BLE001
        add("converter_creation_crashes", f"{type(e).__name__}: {str(e)[:150]}")
        return
    out["created"] += 1
    if not case["coercible"]:
        # the documented relation does not hold: a converter exists although it may not.  Show the wrong-typed value.
        witness = None
        for v in sample_values(s):
            try:
                r = conv(src(v))
            except Exception:  # noqa: BLE001
                continue
            if not conforms(r.x, d):
                witness = (v, r.x)
                break
        add("uncoercible_pair_accepted", "get_converter succeeded although no documented coercion rule applies"
            + (f"; e.g. {witness[0]!r} becomes Dst(x={witness[1]!r}) which is not a {tstr(d)}" if witness else ""))
        return
    for v in sample_values(s):
        try:
            r = conv(src(v))
        except Exception as e:  # noqa: BLE001
            add("converter_raises", f"convert({v!r}) raised {type(e).__name__}: {str(e)[:100]}")
            continue
        if not conforms(r.x, d):
            add("wrong_static_type_in_destination", f"convert({v!r}) put {r.x!r} ({type(r.x).__name__}) into a field typed {tstr(d)}")


def _chunk(items) -> dict:
    out: dict = {"runs": 0, "created": 0, "refused": 0, "bad": [], "machinery": []}
    for case in items:
        try:
            run_pair(case, out)
        except Exception:  # noqa: BLE001
            out["machinery"].append(f"harness error on {json.dumps(case)[:200]}: {traceback.format_exc()[-600:]}")
    best: dict = {}
    for b in out["bad"]:
        k = stable_hash(b["sig"])
        if k not in best or b["size"] < best[k]["size"]:
            best[k] = b
    out["bad"] = list(best.values())
    return out


def unlinked_fields(ctx: Ctx) -> None:
    """a destination field without a linked source: required, or optional under the default (forbid) policy -> refused"""
    from adaptix import ProviderNotFoundError
    from adaptix.conversion import allow_unlinked_optional, get_converter

    @dataclasses.dataclass
    class S:
        a: int

    @dataclasses.dataclass
    class DReq:
        a: int
        extra: int

    @dataclasses.dataclass
    class DOpt:
        a: int
        extra: int = 5

    @dataclasses.dataclass
    class Inner:
        a: int
        extra: int = 1

    @dataclasses.dataclass
    class SN:
        n: S

    @dataclasses.dataclass
    class DN:
        n: Inner
    for name, src, dst in (("required unlinked", S, DReq), ("optional unlinked", S, DOpt), ("nested optional unlinked", SN, DN)):
        ctx.replayed += 1
        try:
            get_converter(src, dst)
            ctx.violation({"what": "unlinked_field_accepted", "case": name}, f"{name}: get_converter succeeded under the default policy", {"case": name})
        except ProviderNotFoundError:
            pass
    try:
        c = get_converter(S, DOpt, recipe=[allow_unlinked_optional("extra")])
        if c(S(1)) != DOpt(1, 5):
            ctx.violation({"what": "allow_unlinked_optional_result"}, f"allow_unlinked_optional: {c(S(1))!r}", {})
        # the policy is per retort call: asking again without it must refuse again (no cross-talk through the cache)
        try:
            get_converter(S, DOpt)
            ctx.violation({"what": "unlinked_field_accepted", "case": "after a call with allow_unlinked_optional"},
                          "get_converter(S, D) succeeded after an earlier call with recipe=[allow_unlinked_optional]", {})
        except ProviderNotFoundError:
            pass
    except ProviderNotFoundError as e:
        ctx.violation({"what": "allow_unlinked_optional_refused"}, f"{e}", {})
    ctx.replayed += 2


def run(ctx: Ctx) -> None:
    quick = ctx.tier == "quick"
    ctx.rule = ("cases = all ordered pairs of a pool of 34 (quick) / 46 (thorough) types (scalars, bool<int, B<A, list/set/tuple/Sequence, "
                "Optional, unions in both orders, literals, dicts, three models, NewType, a user generic) x 4 contexts (direct, in Optional, "
                "in list, as dict value), enumerated by TLC from spec/MC_Convert.tla with the documented verdict; non-trivial = every pair")
    ctx.assumptions = ["'Optional' is read as typing does: any union containing None, payload = union of the other members",
                       "conforms()/sample_values() of vf/props/c14.py as the runtime reading of static types",
                       "the property is an 'only when': documented pairs that adaptix refuses are counted, not reported"]
    cfg = make_cfg(constants=dict(EmitCases=True, Rich=not quick, Models="<- ModelTable"),
                   invariants=["Reflexive", "AsIsRulesSound", "ContextMonotone", "EmitCase"])
    res = run_tlc(ctx.scratch, "MC_Convert", cfg, tag="MC_Convert", timeout_s=3000)
    ctx.add_tlc(res, "all ordered pairs x contexts; reflexive, as-is rules sound, compound rules monotone")
    if not res.ok:
        ctx.model_violation(res, "Convert.tla: the documented coercion relation is not reflexive / sound / monotone")
    cases = list(res.records())
    for c in cases:
        ctx.nontrivial.add(stable_hash(c))
    ctx.samples += [{"src": tstr(wrap(c["ctx"], c["s"])), "dst": tstr(wrap(c["ctx"], c["d"])), "documented_coercible": c["coercible"]}
                    for c in cases[:: max(1, len(cases) // 4)][:4]]
    bad, machinery = [], []
    created = refused = doc_refused = 0
    for o in pmap(_chunk, cases, chunk=60):
        ctx.replayed += o["runs"]
        created += o["created"]
        refused += o["refused"]
        bad += o["bad"]
        machinery += o["machinery"]
    if machinery:
        raise MachineryError(f"{len(machinery)} harness failures, first: {machinery[0]}")
    ctx.extra.update({"converters_created": created, "converters_refused": refused,
                      "documented_coercible_pairs": sum(1 for c in cases if c["coercible"])})
    merged: dict = {}
    for b in bad:
        k = stable_hash(b["sig"])
        if k not in merged or b["size"] < merged[k]["size"]:
            b["count"] = merged[k]["count"] + 1 if k in merged else 1
            merged[k] = b
        else:
            merged[k]["count"] += 1
    for b in sorted(merged.values(), key=lambda b: b["size"]):
        ctx.violation(b["sig"], f"{b['sig']['what']}: {b['detail'][:260]}", {"case": b["case"], "detail": b["detail"]})
    unlinked_fields(ctx)
    ctx.evaluations += ctx.replayed
    ctx.exhaustive = True


def replay(path: str) -> int:
    data = json.load(open(path))
    out: dict = {"runs": 0, "created": 0, "refused": 0, "bad": [], "machinery": []}
    if "case" in data and "s" in data["case"]:
        run_pair(data["case"], out)
    for b in out["bad"]:
        print(b["sig"], b["detail"][:300])
    if out["bad"]:
        print(f"VIOLATION property=C14 replay={path}")
        return 1
    return 0
