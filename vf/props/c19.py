"""C19 - generated code treats names and keys purely as data.  In spec/Layout.tla names and keys are uninterpreted tokens and
the model is equivariant under any injective renaming, so the implementation must commute with renaming too: the Layout
programs (and converters, see c13) are concretised with hostile dictionaries - identifiers used inside the generated
functions, builtins, keyword-with-underscore names, non-ASCII identifiers, keys with quotes / backslashes / braces / dollar
signs / newlines / code fragments calling a canary - and must give exactly the model's outcomes; the canary must never run."""
from __future__ import annotations

import builtins
import enum
import json

from ..core import Ctx
from ..layoutreplay import report, run_slices

# identifiers that occur inside the generated loader / dumper functions (collected from the generators' sources)
GEN_IDENTS = ["data", "errors", "e", "value", "key", "result", "extra", "packed_fields", "constructor", "sentinel", "opt_fields",
              "has_unexpected_error", "model_identity", "getter", "known_keys", "required_keys", "has_not_found_error",
              "append_trail", "LoadError", "TypeLoadError", "CollectionsMapping", "loader", "dumper", "f", "r", "dfl", "self", "cls"]
CANARY_CALLS: list = []


def _canary(*a, **k):
    CANARY_CALLS.append((a, k))
    return "canary"


class KeyEnum(str, enum.Enum):
    """keys that are str subclasses with a repr of their own (members of a str-mixin Enum are a common way to name keys)"""
    K1 = "key-one"
    K2 = "key two"
    N = "nest.ed"


class IdxInt(int):
    def __repr__(self):
        return f"<index {int(self)}>"


HOSTILE_KEYS = [
    {"k1": KeyEnum.K1, "k2": KeyEnum.K2, "n": KeyEnum.N, "u1": "unk1", "u2": "unk2"},
    {"k1": "it's$$cur", "k2": 'say "hi"', "n": "back\\slash$", "u1": "un{k}1", "u2": "$unk2"},
    {"k1": "new\nline", "k2": '"""$expr', "n": "{0}${os}", "u1": "u'1", "u2": "${u2}"},
    {"k1": "' + CANARY() + '", "k2": "{CANARY()}", "n": "__import__('builtins').CANARY()", "u1": "\\'); CANARY(); ('", "u2": "%s"},
    {"k1": "tab\there", "k2": "nul\x00l", "n": "üñí", "u1": "ключ", "u2": "键"},
    {"k1": "data", "k2": "errors", "n": "result", "u1": "extra", "u2": "cls"},   # (an unknown key "self" collides with the constructor under ExtraKwargs: documented flaw of that policy)
]


def tables() -> list[dict]:
    """words must not contain underscores (a field id is a sequence of words); two-word identifiers of the generators are
    reached through the two-word field c_d"""
    single = [w for w in GEN_IDENTS if "_" not in w]
    double = [w.split("_") for w in GEN_IDENTS if w.count("_") == 1]
    out = []
    for i, keys in enumerate(HOSTILE_KEYS):
        c, d = double[i % len(double)]
        out.append({**keys, "a": single[(3 * i) % len(single)], "b": single[(3 * i + 1) % len(single)], "c": c, "d": d,
                    "rest": single[(3 * i + 2) % len(single)], "p": "p"})
    # builtins / keyword-with-underscore / non-ASCII identifiers / prefixed forms of the generators as field names
    out.append({**HOSTILE_KEYS[0], "a": "print", "b": "class", "c": "list", "d": "type", "rest": "dict", "p": "p"})
    out.append({**HOSTILE_KEYS[2], "a": "переменная", "b": "ñ", "c": "變數", "d": "δ", "rest": "ω", "p": "p"})
    out.append({**HOSTILE_KEYS[3], "a": "f", "b": "r", "c": "loader", "d": "data", "rest": "dumper", "p": "p"})
    out.append({**HOSTILE_KEYS[4], "a": "dfl", "b": "from", "c": "f", "d": "errors", "rest": "e", "p": "p"})
    return out


def keyword_parameters(ctx: Ctx) -> None:
    """constructor parameters whose NAME is a keyword: a pydantic field `class_` with alias "class" takes the keyword argument
    `class` (legal through **kwargs only); the loader must pass it without writing `class=` into the generated call"""
    import keyword

    import pydantic

    from adaptix import DebugTrail, Retort
    n = 0
    aliases = [(kw + "_", kw) for kw in ("class", "from", "lambda", "import", "None", "async", "match")]
    # aliases that are no identifiers at all (JSON-style keys are the usual reason for an alias)
    aliases += [("my_x", "my-x"), ("with_space", "with space"), ("abc1", "1abc"), ("dotted", "a.b"), ("quoted", "it's"), ("empty", "")]
    for attr, kw in aliases:
        for with_default in (False, True):
            ns = {"pydantic": pydantic}
            exec(f"class M(pydantic.BaseModel):\n    a: int\n    {attr}: str = pydantic.Field({'\'dflt\', ' if with_default else ''}alias={kw!r})\n", ns)  # noqa: S102
            model = ns["M"]
            key = attr[:-1] if attr.endswith("_") else attr         # the external key is the field id with the trailing underscore trimmed
            for dt in DebugTrail:
                n += 1
                try:
                    r = Retort(debug_trail=dt)
                    obj = r.load({"a": 1, key: "x"}, model)
                    back = r.dump(obj)
                    ok = getattr(obj, attr) == "x" and obj.a == 1 and back == {"a": 1, key: "x"}
                    if with_default:
                        ok = ok and getattr(r.load({"a": 1}, model), attr) == "dflt"
                    if not ok:
                        ctx.violation({"what": "keyword_parameter_wrong_result", "via": "pydantic_alias"}, f"pydantic alias {kw!r} ({dt.name}): loaded {obj!r}, dumped {back!r}", {"alias": kw})
                except Exception as e:  # noqa: BLE001
                    ctx.violation({"what": "keyword_parameter_breaks_generation", "via": "pydantic_alias", "exc": type(e).__name__},
                                  f"pydantic field {attr} with alias {kw!r} (soft or hard keyword: {keyword.iskeyword(kw)}), {dt.name}: {type(e).__name__}: {str(e)[:150]}",
                                  {"alias": kw, "with_default": with_default})
    ctx.replayed += n


def run(ctx: Ctx) -> None:
    builtins.CANARY = _canary
    ctx.rule = ("programs = the Layout.tla slices A (map x style x trim), C (extra policies), D (lists) and E (omit_default), each "
                "concretised with one of 8 hostile name/key dictionaries chosen by program hash and seed (identifiers of the generated "
                "functions, builtins, keyword-with-underscore, non-ASCII identifiers; keys with quotes, backslashes, braces, $, newlines, "
                "NUL, code fragments calling a canary); the outcomes must equal the model's, which is invariant under renaming; "
                "non-trivial = every program")
    ctx.assumptions = ["field names are legal identifiers (dataclasses refuse others); the benign run of the same programs is C03",
                       "the canary is a builtin callable recording every call"]
    slices = ["A", "C", "D", "E"] if ctx.tier == "quick" else ["A", "B", "C", "D", "E", "F"]
    total = run_slices(ctx, slices, {"F": 2}, tables=tables())
    for cat in ("C03", "C04", "C05", "C06", "C08"):
        for f in total[cat]:
            f["sig"]["via"] = cat
        total.setdefault("C19", [])
        total["C19"] += total[cat]
    report(ctx, total, "C19")
    if CANARY_CALLS:
        ctx.violation({"what": "canary_executed"}, f"text supplied as a key was executed: {CANARY_CALLS[:3]}", {"calls": repr(CANARY_CALLS[:10])})
    ctx.extra["hostile_dictionaries"] = len(tables())
    ctx.extra["canary_calls"] = len(CANARY_CALLS)
    from .c19_conv import run_converter_names
    run_converter_names(ctx)
    keyword_parameters(ctx)
    ctx.exhaustive = True


def replay(path: str) -> int:
    data = json.load(open(path))
    print(data.get("what"))
    print(json.dumps(data.get("program"))[:2000])
    print(f"VIOLATION property=C19 replay={path}")
    return 1
