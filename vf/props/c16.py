"""C16 - generic models: type arguments are substituted through the class hierarchy.  spec/Generic.tla: class tables built
by Declare actions (chains of up to 3 classes: multi-parameter roots, partial binding, re-ordering, wrapping in List,
non-generic intermediates, fresh variables, overriding annotations, bare use with implicit parameters); FieldType by
substitution; TLC checks every field gets a closed type and that a pass-through intermediate class is invisible, and
emits every (class table, parametrisation) with the expected field types.  Each is built as real dataclass / attrs /
pydantic / NamedTuple / TypedDict classes; conforming data must load, data fitting only another substitution must fail."""
import dataclasses
import json
import random
import traceback
import typing
from typing import Any, Dict, Generic, List, TypeVar, Union

from ..core import Ctx, stable_hash
from ..par import pmap
from ..tlc import MachineryError, make_cfg, run_tlc

TYPEVARS_SRC = "T = TypeVar('T'); U = TypeVar('U'); W = TypeVar('W'); B = TypeVar('B', bound=int); C = TypeVar('C', str, bool)\n"


SPELLING = {"builtin": False}       # True: builtin generics and PEP 604 unions (list[T] | int) instead of typing aliases


def ann_src(x: dict) -> str:
    k = x["k"]
    if k == "var":
        return x["v"]
    if k in ("int", "str", "bool", "Any"):
        return k
    args = [ann_src(a) for a in x["a"]]
    if SPELLING["builtin"]:
        if k == "union":
            return "(" + " | ".join(args) + ")" if not any(a in ("Any",) for a in args) else "Union[" + ", ".join(args) + "]"
        return {"list": "list", "dict": "dict"}[k] + "[" + ", ".join(args) + "]"
    return {"list": "List", "dict": "Dict", "union": "Union"}[k] + "[" + ", ".join(args) + "]"


def fields_of(cls: dict) -> dict:
    f = cls["fields"]
    return f if isinstance(f, dict) else {}


def class_source(table: list, kind: str) -> str:
    lines = ["from typing import *", "import dataclasses", TYPEVARS_SRC]
    if kind == "attrs":
        lines.append("import attr")
    if kind == "pydantic":
        lines.append("import pydantic")
    for i, cls in enumerate(table, start=1):
        bases = []
        if cls["base"]:
            b = f"K{cls['base']}"
            if cls["bargs"]:
                b += "[" + ", ".join(ann_src(a) for a in cls["bargs"]) + "]"
            bases.append(b)
        elif kind == "pydantic":
            bases.append("pydantic.BaseModel")
        elif kind == "namedtuple":
            bases.append("NamedTuple")
        elif kind == "typeddict":
            bases.append("TypedDict")
        if cls["params"]:
            bases.append("Generic[" + ", ".join(cls["params"]) + "]")
        deco = {"dataclass": "@dataclasses.dataclass\n", "attrs": "@attr.define\n"}.get(kind, "")
        body = "".join(f"    {n}: {ann_src(a)}\n" for n, a in sorted(fields_of(cls).items())) or "    pass\n"
        lines.append(f"{deco}class K{i}({', '.join(bases)}):\n{body}")
    return "\n".join(lines)


def good_datum(t: dict) -> Any:
    k = t["k"]
    if k == "int":
        return 5
    if k == "str":
        return "s"
    if k == "bool":
        return True
    if k == "Any":
        return None
    if k == "list":
        return [good_datum(t["a"][0])]
    if k == "dict":
        return {good_datum(t["a"][0]): good_datum(t["a"][1])}
    if k == "union":
        return good_datum(t["a"][0])
    raise ValueError(k)


def accepts(t: dict, d: Any) -> bool:
    """strict-coercion acceptance of datum d by closed type t (the documented scalar rules, restricted to this universe)"""
    k = t["k"]
    if k == "Any":
        return True
    if k == "int":
        return type(d) is int
    if k == "str":
        return type(d) is str
    if k == "bool":
        return type(d) is bool
    if k == "list":
        return isinstance(d, (list, tuple)) and all(accepts(t["a"][0], e) for e in d)
    if k == "dict":
        return isinstance(d, dict) and all(accepts(t["a"][0], a) and accepts(t["a"][1], b) for a, b in d.items())
    if k == "union":
        return any(accepts(a, d) for a in t["a"])
    raise ValueError(k)


LEAF_DATA = [5, "s", True, [5], ["s"], [[5]], {"s": [5]}, {5: ["s"]}, {"s": "s"}, {5: "s"}, {"s": True}, {5: 5}, {"s": ["s"]}, None]


def tstr(t: dict) -> str:
    return ann_src(t)


def supported(t: dict) -> bool:
    """Dict[List[..], ..] cannot be a loaded type by nature (unhashable key)"""
    if t["k"] == "dict" and t["a"][0]["k"] in ("list", "dict"):
        return False
    return all(supported(a) for a in t["a"])


def run_case(case: dict, out: dict) -> None:
    from adaptix import DebugTrail, ProviderNotFoundError, Retort
    table, args = case["table"], case["args"]
    types = case["types"] if isinstance(case["types"], dict) else {}
    if not all(supported(t) for t in types.values()):
        out["skipped"] += 1
        return
    has_override = any(set(fields_of(c)) & set().union(*[set(fields_of(p)) for p in table[:i]]) for i, c in enumerate(table) if i)
    kinds = ["dataclass", "attrs"] + ([] if has_override else []) + ["pydantic"]
    if len(table) == 1:
        kinds += ["namedtuple", "typeddict"]
    for kind in kinds:
        SPELLING["builtin"] = (int(stable_hash([table, kind]), 16) % 2 == 1)
        src = class_source(table, kind)
        ns: dict = {"__name__": "vf_c16_generated"}
        try:
            exec(src, ns)  # noqa: S102
        except Exception as e:  # noqa: BLE001
            out["skipped"] += 1         # Python / the model library itself refuses this declaration
            continue
        leaf = ns[f"K{len(table)}"]
        tp = leaf
        if args:
            try:
                tp = leaf[tuple(eval(ann_src(a), ns) for a in args)]  # noqa: S307
            except Exception:  # noqa: BLE001
                out["skipped"] += 1
                continue
        out["runs"] += 1

        def add(what, detail):
            out["bad"].append({"sig": {"what": what, "kind": kind, "levels": len(table), "bare": not args,
                                       "nongeneric_mid": any(not c["params"] for c in table[1:-1])},
                               "detail": f"{kind}: {detail}\n{src[src.index('class K1'):]}\nused as K{len(table)}{'[' + ', '.join(ann_src(a) for a in args) + ']' if args else ' (bare)'}",
                               "size": len(src), "case": case, "kind": kind})
        try:
            retort = Retort(debug_trail=DebugTrail.DISABLE)
            loader = retort.get_loader(tp)
        except ProviderNotFoundError as e:
            add("loader_not_created", f"get_loader failed: {str(e.__cause__ or e)[:200]}")
            continue
        except Exception as e:  # noqa: BLE001
            add("loader_creation_crashes", f"{type(e).__name__}: {str(e)[:160]}")
            continue
        base = {f: good_datum(t) for f, t in types.items()}
        try:
            obj = loader(dict(base))
        except Exception as e:  # noqa: BLE001
            add("conforming_data_rejected", f"load({base}) raised {type(e).__name__}: {str(e)[:120]}; expected field types { {f: tstr(t) for f, t in types.items()} }")
            continue
        for f, t in types.items():
            for d in LEAF_DATA:
                datum = dict(base)
                datum[f] = d
                want = accepts(t, d)
                try:
                    loader(datum)
                    got = True
                except Exception:  # noqa: BLE001
                    got = False
                if got != want:
                    add("field_loaded_with_another_substitution",
                        f"field {f}: documented type {tstr(t)}; datum {d!r} was {'accepted' if got else 'rejected'}")
                    break
        # dump goes through the same substituted types
        try:
            dumped = retort.dump(obj, tp)
            if retort.load(dumped, tp) != obj and kind != "typeddict":
                add("round_trip_differs", f"{obj!r} -> {dumped!r}")
        except Exception as e:  # noqa: BLE001
            add("dump_fails", f"{type(e).__name__}: {str(e)[:120]}")


def _chunk(items) -> dict:
    out: dict = {"runs": 0, "skipped": 0, "bad": [], "machinery": []}
    for case in items:
        try:
            run_case(case, out)
        except Exception:  # noqa: BLE001
            out["machinery"].append(f"harness error on {json.dumps(case)[:200]}: {traceback.format_exc()[-700:]}")
    best: dict = {}
    for b in out["bad"]:
        k = stable_hash(b["sig"])
        if k not in best or b["size"] < best[k]["size"]:
            best[k] = b
    out["bad"] = list(best.values())
    return out


def run(ctx: Ctx) -> None:
    quick = ctx.tier == "quick"
    ctx.rule = ("cases = (class table, parametrisation): 5 root shapes (1-2 parameters incl. bound and constrained variables, composite "
                "annotations with variables in non-parameter order) x up to 2 further Declare steps (arguments to the parent drawn from "
                "concrete types, own variables and List[variable], any parameter order, optional fresh variable, own / overriding / "
                "no fields, parent used bare) x concrete arguments or bare use, enumerated by TLC from spec/Generic.tla; each built as "
                "dataclass, attrs and pydantic classes (NamedTuple / TypedDict for single classes); per field 14 leaf data; "
                "non-trivial = tables with >= 2 classes")
    ctx.assumptions = ["accepts() of vf/props/c16.py restates the strict scalar/list/dict rules for the closed types of this universe",
                       "declarations that Python or the model library itself rejects are skipped and counted"]
    cfg = make_cfg(constants=dict(EmitCases=True, Rich=not quick), invariants=["AllFieldsClosed", "PassThroughInvisible", "EmitCase"])
    res = run_tlc(ctx.scratch, "Generic", cfg, tag="Generic", timeout_s=3000, heap_gb=12)
    ctx.add_tlc(res, "class tables by Declare actions; every field closed; pass-through intermediates invisible")
    if not res.ok:
        ctx.model_violation(res, "Generic.tla: substitution through the hierarchy is not well defined")
    cases = list(res.records())
    if quick and len(cases) > 12000:
        rng = random.Random(ctx.seed)
        two = [c for c in cases if len(c["table"]) <= 2]
        three = [c for c in cases if len(c["table"]) == 3]
        rng.shuffle(three)
        cases = two + three[:12000 - len(two)]
    for c in cases:
        if len(c["table"]) >= 2:
            ctx.nontrivial.add(stable_hash(c))
    ctx.samples += [{"classes": class_source(c["table"], "dataclass").split("class K1", 1)[1][:400], "args": [ann_src(a) for a in c["args"]],
                     "expected_field_types": {f: tstr(t) for f, t in (c["types"] if isinstance(c["types"], dict) else {}).items()}}
                    for c in cases[:: max(1, len(cases) // 3)][:3]]
    bad, machinery, skipped = [], [], 0
    for o in pmap(_chunk, cases, chunk=25):
        ctx.replayed += o["runs"]
        skipped += o["skipped"]
        bad += o["bad"]
        machinery += o["machinery"]
    if machinery:
        raise MachineryError(f"{len(machinery)} harness failures, first: {machinery[0]}")
    ctx.outside_model += skipped
    merged: dict = {}
    for b in bad:
        k = stable_hash(b["sig"])
        if k not in merged or b["size"] < merged[k]["size"]:
            merged[k] = b
    for b in sorted(merged.values(), key=lambda b: b["size"]):
        ctx.violation(b["sig"], f"{b['sig']['what']}: {b['detail'][:300]}", {"case": b["case"], "class_kind": b["kind"], "detail": b["detail"]})
    ctx.evaluations += ctx.replayed
    ctx.exhaustive = not quick


def replay(path: str) -> int:
    data = json.load(open(path))
    out: dict = {"runs": 0, "skipped": 0, "bad": [], "machinery": []}
    run_case(data["case"], out)
    for b in out["bad"]:
        print(b["sig"], b["detail"][:600])
    if out["bad"]:
        print(f"VIOLATION property=C16 replay={path}")
        return 1
    return 0
