"""C15 - type normalisation is a canonical form.  spec/PyTypes.tla: hints as written, Denote(h), a rewriting machine whose
meaning-preserving rewrites keep the denotation (TLC invariant) and whose edits change it.  Every transition h -> h' is
replayed: preserving => normalize_type equal with equal hashes and equivalent loaders / dumpers / predicates; changing =>
normal forms unequal; every hint: normalisation idempotent, implicit parameters as documented."""
from __future__ import annotations

import json
import random
import traceback
import typing
from typing import Any, Dict, Generic, List, Literal, Optional, Tuple, Type, TypeVar, Union

from ..core import Ctx, stable_hash
from ..par import pmap
from ..tlc import MachineryError, make_cfg, run_tlc

T = TypeVar("T")
TB = TypeVar("TB", bound=int)
TC = TypeVar("TC", str, bytes)


class G(Generic[T]):
    pass


class GB(Generic[TB]):
    pass


class GC(Generic[TC]):
    pass


def _same_named():
    """two distinct classes / enums that print alike (made by one factory: same name, same module, same qualname)"""
    import enum

    class X:
        pass

    class Color(enum.Enum):
        RED = 1
    return X, Color


X1, Color1 = _same_named()
X2, Color2 = _same_named()
LIT_VALUES = {"ex1": Color1.RED, "ex2": Color2.RED, "i0": 0, "i1": 1, "bF": False, "bT": True, "s_a": "a", "s_b": "b", "none": None, "s_1": "1"}
LEAVES = {"int": int, "str": str, "bool": bool, "bytes": bytes, "None": None, "Any": Any, "G": G, "GB": GB, "GC": GC, "X1": X1, "X2": X2}


def hint(h: dict) -> Any:
    k = h["k"]
    if k in LEAVES:
        return LEAVES[k]
    if k == "literal":
        return Literal[tuple(LIT_VALUES[t] for t in h["v"])]
    args = [hint(a) for a in h["a"]]
    if k == "union":
        return Union[tuple(args)]
    if k == "bar":
        out = args[0]
        for a in args[1:]:
            out = _bar(out, a)
        return out
    if k == "optional":
        return Optional[args[0]]
    if k in ("list", "List"):
        return (list if k == "list" else List)[args[0]]
    if k in ("dict", "Dict"):
        return (dict if k == "dict" else Dict)[args[0], args[1]]
    if k in ("tuple", "Tuple"):
        return (tuple if k == "tuple" else Tuple)[tuple(args)]
    if k == "type":
        return Type[args[0]]
    if k in ("Gp", "GBp", "GCp"):
        return {"Gp": G, "GBp": GB, "GCp": GC}[k][args[0]]
    raise ValueError(k)


class NotExpressible(Exception):
    pass


def _bar(a, b):
    """X | Y with the runtime's own operator; not every operand supports it (None | None, Literal on old versions)"""
    try:
        if a is None and b is None:
            raise NotExpressible
        return a | b
    except TypeError:
        raise NotExpressible from None


def hint_str(h: dict) -> str:
    k = h["k"]
    if k == "literal":
        return "Literal[" + ", ".join(repr(LIT_VALUES[t]) for t in h["v"]) + "]"
    if not h["a"]:
        return k
    if k == "bar":
        return " | ".join(hint_str(a) for a in h["a"])
    return k + "[" + ", ".join(hint_str(a) for a in h["a"]) + "]"


PROBE_DATA = [0, 1, 2, True, False, None, "a", "b", "c", b"x", [1], ["a"], [True], {"k": 1}, {"k": None}, (1, True), (1, 1), 1.0, [], {}]


def behaviour(tp: Any) -> list:
    """outcome vector of the loader of tp over the probe data (strict, DISABLE) and of its dumper"""
    from adaptix import DebugTrail, ProviderNotFoundError, Retort
    from adaptix.load_error import LoadError
    r = Retort(debug_trail=DebugTrail.DISABLE)
    out = []
    try:
        loader = r.get_loader(tp)
    except ProviderNotFoundError:
        out.append("no-loader")
        loader = None
    if loader:
        for d in PROBE_DATA:
            try:
                v = loader(d)
                out.append(("ok", repr(v), type(v).__name__))
            except LoadError:
                out.append("LoadError")
            except Exception as e:  # noqa: BLE001
                out.append("exc:" + type(e).__name__)
    try:
        dumper = r.get_dumper(tp)
    except ProviderNotFoundError:
        out.append("no-dumper")
        dumper = None
    if dumper:
        for d in (0, True, None, "a", [1], {"k": 1}):
            try:
                out.append(("dump", repr(dumper(d))))
            except Exception as e:  # noqa: BLE001
                out.append("dexc:" + type(e).__name__)
    return out


def pred_verdicts(tp: Any, others: list) -> list:
    """does tp used as a predicate match locations typed with each of `others`?"""
    from adaptix._internal.provider.loc_stack_filtering import LocStack, create_loc_stack_checker
    from adaptix._internal.provider.location import TypeHintLoc
    try:
        chk = create_loc_stack_checker(tp)
    except ValueError:
        return ["not-a-predicate"]
    out = []
    for o in others:
        try:
            out.append(bool(chk.check_loc_stack(None, LocStack(TypeHintLoc(type=o)))))
        except Exception as e:  # noqa: BLE001
            out.append("exc:" + type(e).__name__)
    return out


def _chunk(items) -> dict:
    from adaptix._internal.type_tools import normalize_type
    from adaptix._internal.type_tools.normalize_type import _cached_normalize  # noqa: PLC2701
    out: dict = {"n": 0, "bad": [], "skipped": 0, "machinery": []}
    for seed, case in items:
        rng = random.Random(f"{seed}:{stable_hash(case)}")
        try:
            a, b = hint(case["prev"]), hint(case["h"])
        except NotExpressible:
            out["skipped"] += 1
            continue
        except Exception:  # noqa: BLE001
            out["machinery"].append(f"gamma failed on {case}: {traceback.format_exc()[-500:]}")
            continue
        if rng.random() < 0.5:
            _cached_normalize.cache_clear()          # fresh lru_cache state for half of the transitions
        out["n"] += 1

        def add(what, detail):
            out["bad"].append({"sig": {"what": what, "rule": case["rule"]}, "detail": detail, "case": case,
                               "size": len(json.dumps(case["prev"])) + len(json.dumps(case["h"]))})
        try:
            na, nb = normalize_type(a), normalize_type(b)
        except Exception as e:  # noqa: BLE001
            add("normalize_raises", f"normalize_type raised {type(e).__name__}: {str(e)[:120]} on {hint_str(case['prev'])} / {hint_str(case['h'])}")
            continue
        for h_, n_, nm in ((a, na, "prev"), (b, nb, "h")):
            try:
                again = normalize_type(n_.source)
                if again != n_ or hash(again) != hash(n_):
                    add("not_idempotent", f"normalize(normalize({hint_str(case[nm])}).source) = {again!r} != {n_!r}")
            except Exception as e:  # noqa: BLE001
                add("normalize_source_raises", f"normalize_type(norm.source) raised {type(e).__name__} for {hint_str(case[nm])}")
        if case["keeps"]:
            if na != nb:
                add("same_meaning_different_normal_form", f"{hint_str(case['prev'])} -> {na!r}; {hint_str(case['h'])} -> {nb!r}")
                continue
            if hash(na) != hash(nb):
                add("same_meaning_different_hash", f"{hint_str(case['prev'])} vs {hint_str(case['h'])}")
            ba, bb = behaviour(a), behaviour(b)
            if ba != bb:
                diff = [(PROBE_DATA[i] if i < len(PROBE_DATA) else "dump", x, y) for i, (x, y) in enumerate(zip(ba, bb)) if x != y][:3]
                add("same_meaning_different_loader_or_dumper", f"{hint_str(case['prev'])} vs {hint_str(case['h'])}: {diff}")
            pa, pb = pred_verdicts(a, [a, b, int, str]), pred_verdicts(b, [a, b, int, str])
            if pa != pb:
                add("same_meaning_different_predicate", f"{hint_str(case['prev'])} vs {hint_str(case['h'])}: {pa} vs {pb}")
        elif na == nb:
            add("different_meaning_same_normal_form", f"{hint_str(case['prev'])} and {hint_str(case['h'])} both normalise to {na!r}")
        if case.get("allkeeps") and case["root"] != case["prev"]:
            try:
                # each side normalised from an empty lru_cache: equal hints (typing's == ignores union order) must not borrow
                # each other's cached normal form
                _cached_normalize.cache_clear()
                nr = normalize_type(hint(case["root"]))
                _cached_normalize.cache_clear()
                nb = normalize_type(b)
            except NotExpressible:
                continue
            if nr != nb or hash(nr) != hash(nb):
                add("same_meaning_different_normal_form", f"after several preserving rewrites: {hint_str(case['root'])} -> {nr!r}; {hint_str(case['h'])} -> {nb!r}")
    best: dict = {}
    for b_ in out["bad"]:
        k = stable_hash(b_["sig"])
        if k not in best or b_["size"] < best[k]["size"]:
            best[k] = b_
    out["bad"] = list(best.values())
    return out


def implicit_params(ctx: Ctx) -> None:
    """bare generics receive the documented implicit parameters (Any, the bound, the union of constraints)"""
    from adaptix._internal.type_tools import normalize_type
    for bare, want in ((G, G[Any]), (GB, GB[int]), (GC, GC[Union[str, bytes]]), (List, List[Any]), (Dict, Dict[Any, Any])):
        nb, nw = normalize_type(bare), normalize_type(want)
        ctx.replayed += 1
        if [a for a in nb.args] != [a for a in nw.args]:
            ctx.violation({"what": "implicit_parameter", "generic": repr(bare)}, f"normalize_type({bare!r}).args = {nb.args!r}, documented {nw.args!r}",
                          {"bare": repr(bare), "observed": repr(nb), "documented": repr(nw)})


def run(ctx: Ctx) -> None:
    quick = ctx.tier == "quick"
    ctx.rule = ("cases = transitions h -> h' of the rewriting machine of spec/PyTypes.tla (25 seed hints; meaning-preserving rewrites: "
                "swap / nest / duplicate union members, | syntax, Optional <-> Union[.., None], typing alias <-> builtin, bare generic -> "
                "implicit parameter, split / merge / reorder literals, Literal[None] <-> None; edits: retype 0/1 <-> False/True, drop / "
                "add / change members), all positions, up to MaxRewrites steps; non-trivial = every transition")
    ctx.assumptions = ["gamma renders X | Y with the runtime operator (skipped where Python itself refuses it)",
                       "loader/dumper equivalence is judged on a fixed probe vector of 20 data"]
    cfg = make_cfg(constants=dict(MaxRewrites=2 if quick else 3, EmitCases=True),
                   invariants=["PreservingKeepsMeaning", "DenotationCanonical", "EmitCase"])
    res = run_tlc(ctx.scratch, "PyTypes", cfg, tag="PyTypes", timeout_s=3000)
    ctx.add_tlc(res, "rewriting machine; preserving rewrites keep Denote; denotations canonical")
    if not res.ok:
        ctx.model_violation(res, "PyTypes.tla: a rewrite declared meaning-preserving changes the denotation")
    cases = [r for r in res.records() if r["rule"] != "seed"]
    for c in cases:
        ctx.nontrivial.add(stable_hash(c))
    ctx.samples += [{"prev": hint_str(c["prev"]), "h": hint_str(c["h"]), "rule": c["rule"], "keeps_meaning": c["keeps"]} for c in cases[:: max(1, len(cases) // 4)][:4]]
    bad, machinery, skipped = [], [], 0
    for o in pmap(_chunk, [(ctx.seed, c) for c in cases], chunk=60):
        ctx.replayed += o["n"]
        bad += o["bad"]
        machinery += o["machinery"]
        skipped += o["skipped"]
    if machinery:
        raise MachineryError(f"{len(machinery)} harness failures, first: {machinery[0]}")
    ctx.outside_model += skipped
    ctx.evaluations += ctx.replayed
    merged: dict = {}
    for b in bad:
        k = stable_hash(b["sig"])
        if k not in merged or b["size"] < merged[k]["size"]:
            merged[k] = b
    for b in sorted(merged.values(), key=lambda b: b["size"]):
        ctx.violation(b["sig"], f"{b['sig']['what']} ({b['sig']['rule']}): {b['detail'][:260]}", {"case": b["case"], "detail": b["detail"]})
    implicit_params(ctx)
    ctx.exhaustive = True


def replay(path: str) -> int:
    data = json.load(open(path))
    o = _chunk([(0, data["case"])])
    for b in o["bad"]:
        print(b["sig"], b["detail"][:300])
    if o["bad"]:
        print(f"VIOLATION property=C15 replay={path}")
        return 1
    return 0
