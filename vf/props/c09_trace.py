"""code -> spec half of C09: random long recipes run on the real retort, logs validated by Trace_Router.tla."""
from __future__ import annotations

import random

from ..core import Ctx
from ..par import pmap
from ..trace import validate


def _chunk(items):
    from .c09 import build_and_run_logged
    return [build_and_run_logged(case, gseed) for gseed, case in items]


def validate_traces(ctx: Ctx, n: int, max_len: int) -> None:
    rng = random.Random(ctx.seed * 7919 + 13)
    cls_w = ["exA", "exB", "exC", "predY", "predN"]
    hk = ["plain", "decline", "first", "last", "deleg", "abort"]
    cases = []
    for _ in range(n):
        tail = rng.random() < 0.6
        ln = rng.randint(1, max_len if tail else min(max_len, 9))
        rec = [{"c": rng.choices(cls_w, weights=[3, 2, 1, 2, 2])[0], "h": rng.choices(hk, weights=[2, 8, 4, 4, 4, 1])[0]}
               for _ in range(ln)]
        cases.append((ctx.seed, {"rec": rec, "tail": tail}))
    lines = []
    for out in pmap(_chunk, cases, chunk=100):
        lines += out
    bad = validate(ctx, "Trace_Router", lines, tag="Router")
    bad.sort(key=lambda v: len(lines[v["l"] - 1]["rec"]))
    for v in bad:
        ln = lines[v["l"] - 1]
        for clause in sorted(v["bad"]):
            ctx.violation({"mismatch": "trace:" + clause},
                          f"recorded consult log rejected by Trace_Router clause {clause}",
                          {"trace_line": ln, "model_expectation": v["exp"], "clauses": v["bad"], "gseed": ctx.seed,
                           "case": {"rec": ln["rec"], "tail": ln["tail"], "ok": None, "term": [], "log": []}})
    for ln in lines[:2]:
        if len(ctx.samples) < 8:
            ctx.samples.append({"recorded_trace_event": ln})
