"""C07 - strict_coercion only narrows: Load.tla / MC_Load.tla sweep replayed on the real library (see vf/loadsweep.py)."""
from __future__ import annotations

import json
import subprocess
import sys

from ..core import Ctx
from ..loadsweep import report, run_sweep

RULE = ("cases = (type, datum) pairs enumerated exhaustively by TLC from spec/MC_Load.tla over the token universe of "
        "spec/PyAxioms.tla, each with the model's verdict (Acc / Errs / Undef) for both coercion modes; every case is executed "
        "on the real Retort in the 6 (strict_coercion x debug_trail) modes with k representatives per token class; "
        "non-trivial = accepted in some mode or rejected below the top-level node")


def run(ctx: Ctx) -> None:
    ctx.rule = RULE
    ctx.assumptions = ["spec/PyAxioms.tla (facts about CPython constructors, generated from CPython at run time)",
                       "gamma/alpha of vf/gamma.py; token classes are constant for every documented rule (checked at run time)"]
    sweep = run_sweep(ctx)
    report(ctx, sweep, "C07")
    extra(ctx, sweep)


def extra(ctx: Ctx, sweep: dict) -> None:
    pass
    # code -> spec: the calls of the repository's own test-suite with their variations, judged by spec/Trace_Harvest.tla
    from .. import harvest
    harvest.check(ctx, "C07")


def replay(path: str) -> int:
    data = json.load(open(path))
    print(data.get("what"))
    src = data.get("source")
    if not src:
        return 2
    proc = subprocess.run([sys.executable, "-c", src], capture_output=True, text=True)
    print(proc.stdout + proc.stderr)
    print(f"VIOLATION property=C07 replay={path}")
    return 1
