"""C01 - round trip load(dump(x, T), T) == x: Dump.tla / MC_Dump.tla.  TLC checks that the documented representation rules
are mutually inverse (also after JSON travel) on every (type, value) of the bounded universe; every case is then dumped,
loaded back and JSON-travelled on the real library in the 6 modes."""
from __future__ import annotations

import json
import subprocess
import sys

from ..core import Ctx
from ..dumpsweep import report_dump, run_dump_sweep


def run(ctx: Ctx) -> None:
    ctx.rule = ("cases = (type, value) pairs with v in Val(T), enumerated exhaustively by TLC from spec/MC_Dump.tla (scalars, containers "
                "depth 2, unions without overlapping cases, literals, NewType/Annotated); TLC checks RoundTripHolds / RoundTripJsonHolds "
                "on the documented rules; each case is executed on the real Retort: dump in 6 modes, load back, load back after "
                "json.dumps/json.loads when all keys are strings; k representatives per token class; non-trivial = every case "
                "(each is a distinct (type, value) pair)")
    ctx.assumptions = ["spec/PyAxioms.tla (CPython facts incl. DumpTok/CtorTok on primary representatives)",
                       "the value universe excludes NaN (x == x fails) and values that are instances of a subclass of the declared class",
                       "model round trips: the Layout.tla programs (LoaderDumperAgree / OmitDefaultRoundTrip on the model; load(dump(x)) on the "
                       "real library for every dump object incl. falsy non-default values, defaults written as values / None / factories)"]
    sweep = run_dump_sweep(ctx)
    report_dump(ctx, sweep, "C01")
    # models: name_mapping layouts (dataclass) and the other model kinds
    from ..kinds import KINDS
    from ..layoutreplay import report as report_layout, run_slices
    quick = ctx.tier == "quick"
    total = run_slices(ctx, ["A", "C", "E", "G"] if quick else ["A", "B", "C", "D", "E", "F", "G"], {"F": 2}, twins=False)
    report_layout(ctx, total, "C01")
    from .. import layoutreplay
    layoutreplay.TYPE_PRED_ALLOWED["on"] = False      # Required[int] is not selected by the predicate `int`: known finding of C17
    for kind_tla in ("dataclass", "typeddict", "sqlalchemy"):
        kinds = [k.name for k in KINDS if k.tla == ("total" if kind_tla == "dataclass" else kind_tla) and k.name != "dataclass"]
        total = run_slices(ctx, (["E"] if quick else ["A", "B", "C", "D", "E", "F"]) + (["G"] if kind_tla == "dataclass" else []), {"F": 1}, twins=False, kind_tla=kind_tla, kinds=kinds,
                           every=2 if quick else 1)
        report_layout(ctx, total, "C01")
    # enums under every representation provider, unbound / bound to one / to several predicates (shared with C18)
    from .c18 import run_enums
    run_enums(ctx)
    ctx.exhaustive = True


def replay(path: str) -> int:
    data = json.load(open(path))
    print(data.get("what"))
    proc = subprocess.run([sys.executable, "-c", data["source"]], capture_output=True, text=True)
    print(proc.stdout + proc.stderr)
    print(f"VIOLATION property=C01 replay={path}")
    return 1
