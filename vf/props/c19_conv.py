"""converter side of C19 (filled in together with the Convert model, see c13.py)"""
from ..core import Ctx


def run_converter_names(ctx: Ctx) -> None:
    try:
        from .c13 import hostile_converter_names
    except ImportError:
        ctx.notes.append("converter names: Convert model not built yet")
        return
    hostile_converter_names(ctx)
