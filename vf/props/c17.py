"""C17 - all supported model kinds behave the same for the same logical model.  spec/Kinds.tla says how each kind declares a
logical field (req / oreq / hasdfl) and which logical models a kind cannot declare (documented limitations); everything else
is the single Layout.tla semantics.  TLC checks KindsUniform on every program (same paths, same verdicts, same outcome for
every probe up to the absence of defaults in TypedDict) and enumerates the programs twice (total kinds, TypedDict); every
program is replayed on NamedTuple, attrs, pydantic, SQLAlchemy and two TypedDict spellings with the model's outcome as the
oracle (dataclass is C03).  Converters between every ordered pair of kinds must copy every field."""
from __future__ import annotations

import itertools
import json
import os

from ..core import Ctx
from ..kinds import BY_NAME, KINDS, MISSING
from ..layoutreplay import CATS, Names, good_value, run_slices
from ..tlc import MachineryError

RULE = ("programs = the Layout.tla slices (map x style x trim, skip/only, extra policies, lists, omit_default, stacked overlays) enumerated "
        "by TLC for Kind = dataclass (all total kinds) and Kind = typeddict, with KindsUniform checked on each; every program is replayed "
        "with all its probes and dump objects in the three debug modes on every kind that can declare it (NamedTuple, attrs, pydantic, "
        "SQLAlchemy; TypedDict with NotRequired[] and with total=False + Required[] in reversed key order) - the oracle is the model, which "
        "does not depend on the kind; plus converters between all ordered pairs of kinds over all shapes; non-trivial = every (program, kind)")


def converters(ctx: Ctx) -> None:
    """Kinds.tla ConvertObj: a converter between two kinds of one logical model copies every field"""
    from adaptix.conversion import get_converter
    ids = [{"w": ["a"], "us": 0, "lead": 0}, {"w": ["b"], "us": 1, "lead": 0}, {"w": ["c", "d"], "us": 0, "lead": 0}, {"w": ["rest"], "us": 0, "lead": 0}]
    shapes = []
    priv = {"w": ["p"], "us": 0, "lead": 1}        # _p: attrs spells the constructor parameter `p`
    for r2, r3, with_any, with_priv in itertools.product((True, False), (True, False), (False, True), (False, True)):
        sh = [{"id": ids[0], "req": True, "ty": "int"}, {"id": ids[1], "req": r2, "ty": "str"}, {"id": ids[2], "req": r3, "ty": "int"}]
        if with_any:
            sh.append({"id": ids[3], "req": r3, "ty": "any"})
        if with_priv:
            sh.append({"id": priv, "req": r2, "ty": "int"})
        shapes.append(sh)
    n = 0
    # defaults written as truthy values / falsy values (all kinds) / None with Optional[int] (SQLAlchemy reads default=None as "no default")
    for sh, (dstyle, falsy) in itertools.product(shapes, ((0, False), (1, True), (1, False))):
        names = Names()
        names.dstyle = dstyle
        names.kindname = "sqlalchemy" if falsy else None
        classes = {k.name: k.make(sh, names) for k in KINDS if k.supports(sh, {}) is None and (falsy or dstyle == 0 or k.name != "sqlalchemy")}
        fields = [names.field(f["id"]) for f in sh]
        objs = [{fn: good_value(sh, i, names) for i, fn in enumerate(fields, start=1)},
                {fn: (good_value(sh, i, names) if f["req"] else names.default(f["ty"])) for i, (fn, f) in enumerate(zip(fields, sh), start=1)}]
        for (ka, ca), (kb, cb) in itertools.product(classes.items(), classes.items()):
            sig = {"what": "converter_between_kinds", "src": ka, "dst": kb}
            try:
                conv = get_converter(ca, cb)
            except Exception as e:  # noqa: BLE001
                ctx.violation({**sig, "stage": "creation"}, f"get_converter({ka}, {kb}) for fields {fields} raised {type(e).__name__}: {str(e)[:200]}",
                              {"shape": sh, "src": ka, "dst": kb})
                continue
            for vals in objs:
                n += 1
                src = BY_NAME[ka].construct(ca, vals)
                try:
                    dst = conv(src)
                except Exception as e:  # noqa: BLE001
                    ctx.violation({**sig, "stage": "call"}, f"converter {ka}->{kb} raised {type(e).__name__}: {str(e)[:200]} on {vals}", {"shape": sh, "vals": vals})
                    continue
                got = {fn: BY_NAME[kb].get(dst, fn) for fn in fields}
                if got != vals or (not isinstance(dst, cb) if BY_NAME[kb].tla != "typeddict" else type(dst) is not dict):
                    ctx.violation({**sig, "stage": "fields"}, f"converter {ka}->{kb}: fields {got} (type {type(dst).__name__}), source {vals}",
                                  {"shape": sh, "vals": vals, "got": repr(got)})
    ctx.replayed += n
    ctx.evaluations += n
    ctx.nontrivial_n += n
    ctx.extra["converter_calls_between_kinds"] = n


def run(ctx: Ctx) -> None:
    ctx.rule = RULE
    ctx.assumptions = ["spec/Kinds.tla lists the per-kind limitations taken from docs/reference/integrations.rst and from Python itself "
                       "(NamedTuple field order / underscore names, pydantic private attributes, SQLAlchemy as_list); programs a kind cannot "
                       "declare are counted in evidence.extra.unsupported and not run on it",
                       "SQLAlchemy models: first field is the primary key (autoincrement off), Any fields are JSON columns, scalar column defaults",
                       "ExtraKwargs programs need a constructor with **kwargs and stay with C03"]
    thorough = ctx.tier == "thorough"
    slices = ["A", "B", "C", "D", "E", "F"]
    mo = {"F": 2 if thorough else 1}
    every = 1 if thorough else int(os.environ.get("VERIF_C17_EVERY", "3"))
    by_kind: dict = {}
    unsupported: dict = {}
    for kind_tla in ("dataclass", "typeddict", "sqlalchemy"):
        kinds = [k.name for k in KINDS if k.tla == ("total" if kind_tla == "dataclass" else kind_tla) and k.name != "dataclass"]
        if thorough:
            kinds = ["*"] + kinds          # every variant spelling on every program
        # G: output-only fields exist for dataclass / attrs / pydantic only (Kinds.tla Supports)
        total = run_slices(ctx, slices + (["G"] if kind_tla == "dataclass" else []), mo, twins=False, kind_tla=kind_tla, kinds=kinds, every=every, invs=["KindsUniform"] if kind_tla == "dataclass" else None)
        for k, v in total["by_kind"].items():
            by_kind[k] = by_kind.get(k, 0) + v
        for k, v in total["unsupported"].items():
            unsupported[k] = unsupported.get(k, 0) + v
        for cat in CATS:
            if cat == "C01":
                continue          # the round trip of a program is judged by C01 (which runs the same kinds); here: uniformity against the model
            for f in sorted(total[cat], key=lambda f: (f["size"], json.dumps(f["sig"], sort_keys=True))):
                ctx.violation({**f["sig"], "cat": cat}, f"[{f['sig'].get('kind')}] {f['sig']['what']}: {f['detail'][:230]}",
                              {"category": cat, "program": f["case"], "detail": f["detail"], "count": f["count"],
                               **{k: f[k] for k in ("probe", "py_datum", "dt") if k in f}})
    ctx.extra["programs_by_kind"] = by_kind
    ctx.extra["unsupported"] = unsupported
    if not by_kind or min(by_kind.values()) == 0 or len(by_kind) < 13:
        raise MachineryError(f"a model kind was never exercised: {by_kind}")
    converters(ctx)
    ctx.exhaustive = thorough


def replay(path: str) -> int:
    data = json.load(open(path))
    print(data.get("what"))
    print(json.dumps(data.get("program"))[:2000])
    print(f"VIOLATION property=C17 replay={path}")
    return 1
