"""C09 - recipe resolution is first-match in recipe order; chaining composes exactly once.

spec/Router.tla: TLC proves (exhaustively up to MaxLen) that the code-shaped router machine is
equivalent to the reference chain of responsibility `Ref`, and emits every (recipe, expected consult
log, expected term) case.  Each case is replayed into the real Retort with marker providers (gamma
below); the observed consult log and the observed composed function must equal the model's.
In the other direction random long recipes are executed on the real code, their marker logs are
recorded as ndjson and validated by spec/Trace_Router.tla (which re-uses Ref)."""
from __future__ import annotations

import dataclasses
import json
import random
import re
import sys
import typing
from typing import Any, List, Optional

from ..core import Ctx, stable_hash
from ..par import pmap
from ..tlc import MachineryError, make_cfg, run_tlc

@dataclasses.dataclass
class RNode:
    v: int
    kids: List["RNode"] = dataclasses.field(default_factory=list)


@dataclasses.dataclass
class Link:
    v: int
    next: Optional["Link"] = None


INVS = ["RouterEquiv", "IncreasingPerFrame", "NestedBehind", "ChainOnce", "NoTwiceOnSuccess", "FirstMatch", "AbortIsLast", "StubIsFinal", "EmitCase"]


# ------------------------------------------------------------------------------------------------
# gamma: abstract recipe -> real providers / retorts
# ------------------------------------------------------------------------------------------------
def _env():
    import collections.abc
    import numbers
    import typing
    from dataclasses import dataclass

    from adaptix import Chain, DebugTrail, P, Retort, bound, dumper, loader
    from adaptix._internal.morphing.facade.retort import AdornedRetort
    from adaptix._internal.morphing.request_cls import DumperRequest, LoaderRequest
    from adaptix._internal.provider.essential import CannotProvide, Provider
    from adaptix._internal.provider.provider_wrapper import ChainingProvider
    from adaptix._internal.provider.request_checkers import AlwaysTrueRequestChecker

    @dataclass
    class M:
        fld: int

    class Bare(AdornedRetort):
        pass

    return locals()


_E: dict[str, Any] = {}


def env() -> dict[str, Any]:
    if not _E:
        _E.update(_env())
    return _E


def unnorm_types(req: str = "U") -> list:
    """request types that normalize_type refuses (spec: Req = "U"); Req = "F": the one the builtin recipe refuses terminally
    (ForwardRefEvaluatingProvider: 'ForwardRef can not be evaluated')"""
    typing = env()["typing"]
    if req == "F":
        return [typing.ForwardRef("Zzz"), typing.ForwardRef("Undefined.name")]
    return [typing.Optional, typing.Union, typing.Final, "Zzz", typing.List["Zzz"], typing.ClassVar]


@typing.runtime_checkable
class HasBitLength(typing.Protocol):
    """a runtime checkable protocol whose member is a plain (not abstract) method: int implements it"""

    def bit_length(self): ...


@typing.runtime_checkable
class HasFrobnicate(typing.Protocol):
    def frobnicate(self): ...


def preds_for(cls: str, field_variant: bool, req: str = "A") -> list:
    e = env()
    P, M = e["P"], e["M"]
    numbers, cabc, typing = e["numbers"], e["collections"].abc, e["typing"]
    if cls == "exA":
        return [int, P[int]]
    if cls == "exB":
        return [str, P[str]]
    if cls == "exC":
        return [None, P[None], type(None)]          # the exact origin None
    if req == "W":
        # a location typed NewType / Annotated is met twice: as spelled and unwrapped (int); predY / predN must answer alike at both
        if cls == "predY":
            return [P.ANY, ~P[str], P.ANY & ~P[str], ~(P[bytes] | P[str]), ~P[None], ~P[HasFrobnicate]]
        if cls == "predN":
            return [P[str] | P[bytes], "other", cabc.Mapping, P[str] & P.ANY, HasFrobnicate, P[M].fld]
    if req in ("U", "F"):
        if cls == "predY":
            return [P.ANY, ~P[str], ~P[int], P.ANY & ~P[str], ~(P[int] | P[str]), ~P[None]]
        if cls == "predN":
            return [P[str] | P[bytes], P[int] & P.ANY, "other", "fld", P[int] ^ P[int], numbers.Integral, cabc.Mapping, P[M].fld, P[None] | P[int]]
    if cls == "predY":
        common = [P[int] | P[str], P[int, str], numbers.Integral, P[int] ^ P[str], typing.SupportsInt,
                  P[int] & ~P[str], ~~P[int], HasBitLength, P[HasBitLength] & ~P[HasFrobnicate]]
        if field_variant:
            return common + ["fld", "f.d", P[M].fld, P.fld & P[int], re.compile("fl.*"), P[M][int], P[M]["fld|zzz"]]
        return common + [P.ANY, P[int] & P.ANY, ~P[str]]
    if cls == "predN":
        common = [P[str] | P[bytes], cabc.Mapping, P[str] & P[int], "other", "x.*", P[str].fld, P[int] ^ P[int], HasFrobnicate]
        if field_variant:
            return common + [P[M].other, P[str][int], P.fld & P[str]]
        return common + ["fld", ~P[int], P[M].fld]
    raise ValueError(cls)


def fn(i: int):
    return lambda x: x * 10 + i


def make_marker(idx: int, kind: str, log: list, req_name: str, probe):
    """A provider whose handler records that it was consulted (only for the probed request)."""
    e = env()
    Provider, CannotProvide = e["Provider"], e["CannotProvide"]
    req_cls = e[req_name]

    class Marker(Provider):
        def get_request_handlers(self):
            def handler(mediator, request):
                if probe(request):
                    log.append(idx)
                if kind == "func":
                    return fn(idx)
                if kind == "plain":
                    return fn(idx)
                if kind == "decline":
                    raise CannotProvide(f"marker {idx} declines")
                if kind == "abort":
                    raise CannotProvide(f"marker {idx} refuses terminally", is_terminal=True)
                if kind == "deleg":
                    nxt = mediator.provide_from_next()
                    return lambda x: fn(idx)(nxt(x))
                raise AssertionError(kind)
            return [(req_cls, e["AlwaysTrueRequestChecker"](), handler)]

        def __repr__(self):
            return f"Marker({idx},{kind})"

    return Marker()


def build_and_run(case: dict, gseed: int) -> dict:
    """Concretise one abstract case and run it on the real library.  Returns observed {ok, term, log} and
    a python-ish description of what was built."""
    e = env()
    rng = random.Random(f"{gseed}:{json.dumps(case['rec'], sort_keys=True)}:{case['tail']}")
    rec = case["rec"]
    tail = case["tail"]
    side = rng.choice(["load", "dump"])
    req = case.get("req", "A")
    field_variant = tail and rng.random() < 0.4 and req == "A"
    unnorm = unnorm_types(req)
    req_tp = int if req == "A" else rng.choice([UserId, typing.Annotated[int, "meta"]]) if req == "W" else unnorm[rng.randrange(len(unnorm))]
    req_name = "LoaderRequest" if side == "load" else "DumperRequest"
    facade = e["loader"] if side == "load" else e["dumper"]
    Chain, bound, ChainingProvider = e["Chain"], e["bound"], e["ChainingProvider"]
    log: list[int] = []
    unlogged: set[int] = set()
    desc = []

    def probe(request):
        return request.last_loc.type is req_tp or (req == "W" and request.last_loc.type is int)

    providers = []
    for idx, p in enumerate(rec, start=1):
        choices = preds_for(p["c"], field_variant, req)
        k = rng.randrange(len(choices))
        pred = choices[k]
        h = p["h"]
        if h in ("first", "last"):
            chain = Chain.FIRST if h == "first" else Chain.LAST
            if rng.random() < 0.5:
                providers.append(facade(pred, fn(idx), chain))
                unlogged.add(idx)
                desc.append(f"{side}r({pred!r}, f{idx}, Chain.{chain.name})")
            else:
                providers.append(bound(pred, ChainingProvider(chain, make_marker(idx, "func", log, req_name, probe))))
                desc.append(f"bound({pred!r}, ChainingProvider(Chain.{chain.name}, Marker({idx})))")
        elif h == "plain" and rng.random() < 0.3:
            providers.append(facade(pred, fn(idx)))
            unlogged.add(idx)
            desc.append(f"{side}r({pred!r}, f{idx})")
        else:
            providers.append(bound(pred, make_marker(idx, h, log, req_name, probe)))
            desc.append(f"bound({pred!r}, Marker({idx},{h}))")
    n = len(providers)
    c1 = rng.randint(0, n)
    c2 = rng.randint(c1, n)
    c3 = rng.randint(c2, n)
    base_cls = e["Retort"] if tail else e["Bare"]
    lvl0 = type("R0", (base_cls,), {"recipe": list(providers[c3:])})
    lvl1 = type("R1", (lvl0,), {"recipe": list(providers[c2:c3])})
    retort = lvl1(recipe=providers[c1:c2])
    how = rng.randrange(4)
    if how == 1:
        retort = retort.replace(strict_coercion=False)
    retort = retort.extend(recipe=providers[:c1])
    if how == 2:
        retort = retort.replace(debug_trail=e["DebugTrail"].FIRST)
    if how == 3:
        retort = retort.replace(hide_traceback=False)
    layout = {"extend": c1, "instance": c2 - c1, "class_R1": c3 - c2, "class_R0": n - c3, "base": base_cls.__name__,
              "side": side, "field_variant": field_variant, "replace": how, "request_type": repr(req_tp)}
    from adaptix import ProviderNotFoundError
    tp = e["M"] if field_variant else req_tp
    obs: dict[str, Any]
    try:
        func = retort.get_loader(tp) if side == "load" else retort.get_dumper(tp)
    except ProviderNotFoundError:
        obs = {"ok": False, "term": [], "log": list(log)}
    else:
        if field_variant:
            if side == "load":
                value = func({"fld": 0}).fld
            else:
                value = func(e["M"](fld=0))["fld"]
        else:
            value = func(0)
        term = [int(ch) for ch in str(value)] if value != 0 else []
        obs = {"ok": True, "term": term, "log": list(log)}
        # second request: served from the facade cache, no new consults
        func2 = retort.get_loader(tp) if side == "load" else retort.get_dumper(tp)
        if func2 is not func or log != obs["log"]:
            obs["second_request_differs"] = True
    n_full = len(rec) + (1 if tail else 0)
    exp_log = [i for i in case["log"] if i not in unlogged and i <= len(rec)]
    exp_term = [i for i in case["term"] if i <= len(rec)]
    exp = {"ok": case["ok"], "term": exp_term, "log": exp_log}
    mismatch = None
    if obs["ok"] != exp["ok"]:
        mismatch = "served_or_refused"
    elif obs["log"] != exp["log"]:
        mismatch = "consult_log"
    elif obs["term"] != exp["term"]:
        mismatch = "composed_term"
    elif obs.get("second_request_differs"):
        mismatch = "second_request"
    return {"mismatch": mismatch, "exp": exp, "obs": obs, "desc": desc, "layout": layout}


def build_nested_and_run(case: dict, gseed: int) -> dict:
    """spec/RouterNest.tla: pre + [bound(w, Inner(inner))] + post on the real library; markers also record which retort answers
    their StrictCoercionRequest"""
    e = env()
    from adaptix import ProviderNotFoundError
    from adaptix._internal.morphing.request_cls import StrictCoercionRequest
    rng = random.Random(f"N{gseed}:{json.dumps([case['pre'], case['inner'], case['post']], sort_keys=True)}:{case['cut']}:{case['w']}")
    Chain, bound, ChainingProvider, Provider, CannotProvide = e["Chain"], e["bound"], e["ChainingProvider"], e["Provider"], e["CannotProvide"]
    side = "load"
    log: list[int] = []
    opts: dict[int, bool] = {}
    desc: list[str] = []

    def mk(idx, kind):
        class Marker(Provider):
            def get_request_handlers(self):
                def handler(mediator, request):
                    if request.last_loc.type is int:
                        log.append(idx)
                    if kind == "decline":
                        raise CannotProvide(f"marker {idx} declines")
                    if kind == "abort":
                        raise CannotProvide(f"marker {idx} refuses terminally", is_terminal=True)
                    if kind in ("func", "plain"):
                        if request.last_loc.type is int:
                            opts[idx] = mediator.mandatory_provide(StrictCoercionRequest(loc_stack=request.loc_stack))
                        return fn(idx)
                    nxt = mediator.provide_from_next()
                    return lambda x: fn(idx)(nxt(x))
                return [(e["LoaderRequest"], e["AlwaysTrueRequestChecker"](), handler)]

            def __repr__(self):
                return f"Marker({idx},{kind})"
        return Marker()

    def build(rec, base):
        out = []
        for k, p in enumerate(rec, start=1):
            idx = base + k
            choices = preds_for(p["c"], False)
            pred = choices[rng.randrange(len(choices))]
            if p["h"] in ("first", "last"):
                chain = Chain.FIRST if p["h"] == "first" else Chain.LAST
                out.append(bound(pred, ChainingProvider(chain, mk(idx, "func"))))
                desc.append(f"{idx}: bound({pred!r}, ChainingProvider(Chain.{chain.name}, Marker))")
            else:
                out.append(bound(pred, mk(idx, p["h"])))
                desc.append(f"{idx}: bound({pred!r}, Marker({p['h']}))")
        return out
    a, b = len(case["pre"]), len(case["inner"])
    pre, inner, post = build(case["pre"], 0), build(case["inner"], a), build(case["post"], a + b)
    cut = min(case["cut"], b)
    inner_cls = type("Inner", (e["Bare"],), {"recipe": list(inner[cut:])})
    if rng.random() < 0.5:
        inner_retort = inner_cls(recipe=inner[:cut], strict_coercion=case["inner_strict"])
    else:
        # the same retort obtained by derivation ("extend() prepends, replace() changes only scalar options") from a base that has
        # already been placed in another recipe and has served there: what a derived retort serves depends on its construction only
        cut2 = rng.randint(0, cut)
        base = inner_cls(recipe=inner[cut2:cut], strict_coercion=not case["inner_strict"])
        try:
            e["Bare"](recipe=[base]).get_loader(int)
        except Exception:  # noqa: BLE001,S110
            pass
        del log[:]
        opts.clear()
        inner_retort = base.extend(recipe=inner[:cut2]).replace(strict_coercion=case["inner_strict"])
        desc.append(f"inner retort = base(recipe={cut2}..{cut}, strict={not case['inner_strict']}) used in another recipe, then "
                    f".extend(recipe=first {cut2}).replace(strict_coercion={case['inner_strict']})")
    if rng.random() < 0.3:
        inner_retort = inner_retort.replace(debug_trail=e["DebugTrail"].FIRST)
    if case["w"] == "none":
        placed = inner_retort
    else:
        choices = preds_for(case["w"], False)
        placed = bound(choices[rng.randrange(len(choices))], inner_retort)
    full = pre + [placed] + post
    c1 = rng.randint(0, len(full))
    outer_cls = type("Outer", (e["Bare"],), {"recipe": list(full[c1:])})
    retort = outer_cls(recipe=full[:c1], strict_coercion=case["outer_strict"])
    layout = {"outer_instance": c1, "inner_instance": cut, "wrapper": case["w"]}
    try:
        func = retort.get_loader(int)
    except ProviderNotFoundError:
        obs = {"ok": False, "term": [], "log": list(log), "strict": None}
    else:
        value = func(0)
        obs = {"ok": True, "term": [int(ch) for ch in str(value)] if value != 0 else [], "log": list(log),
               "strict": opts.get(log[-1]) if log else None}
    exp = {"ok": case["ok"], "term": case["term"], "log": case["log"], "strict": case["strict"] if case["ok"] else None}
    mismatch = None
    if obs["ok"] != exp["ok"]:
        mismatch = "nested_served_or_refused"
    elif obs["log"] != exp["log"]:
        mismatch = "nested_consult_log"
    elif obs["term"] != exp["term"]:
        mismatch = "nested_composed_term"
    elif obs["strict"] != exp["strict"]:
        mismatch = "nested_options"
    return {"mismatch": mismatch, "exp": exp, "obs": obs, "desc": desc, "layout": layout}


def nested_scenarios(ctx: Ctx) -> None:
    """the documented use: bound(T, Retort(...)) - the inner retort is a full Retort configured only through options / a class
    level recipe (RouterNest.tla GoverningStrict with an empty instance recipe)"""
    from typing import List

    from adaptix import Retort, bound, loader
    from adaptix.load_error import LoadError

    def accepts(retort, tp, datum):
        try:
            retort.load(datum, tp)
            return True
        except LoadError:
            return False

    class ClsRecipe(Retort):
        recipe = [loader(int, lambda x: ("cls", x))]
    n = 0
    for outer_strict in (True, False):
        inner = Retort(strict_coercion=not outer_strict)
        for placed, label in ((bound(int, inner), "bound(int, Retort(strict_coercion=...))"), (bound(List[int], inner), "bound(List[int], Retort(...))")):
            outer = Retort(recipe=[placed], strict_coercion=outer_strict)
            for tp, datum, by_inner in ((int, "12", label.startswith("bound(int")), (List[int], ["12"], True), (str, 5, False)):
                n += 1
                if tp is str:
                    exp = not outer_strict       # str(5) is accepted only without strict coercion
                else:
                    governing = (not outer_strict) if by_inner else outer_strict
                    exp = not governing
                got = accepts(outer, tp, datum)
                if got != exp:
                    ctx.violation({"mismatch": "nested_options_scenario"}, f"{label} in Retort(strict_coercion={outer_strict}): load({datum!r}, {tp}) "
                                  f"{'accepted' if got else 'rejected'}, the governing retort ({'inner' if by_inner else 'outer'}) says {'accept' if exp else 'reject'}",
                                  {"label": label, "outer_strict": outer_strict, "tp": str(tp), "datum": datum})
    for placed, label in ((ClsRecipe(), "Retort subclass with class-level recipe placed directly"), (bound(int, ClsRecipe()), "bound(int, subclass with class-level recipe)")):
        n += 1
        got = Retort(recipe=[placed]).load(3, int)
        if got != ("cls", 3):
            ctx.violation({"mismatch": "nested_class_recipe_scenario"}, f"{label}: load(3, int) = {got!r}, the inner class recipe says ('cls', 3)", {"label": label})
    ctx.replayed += n


UserId = typing.NewType("UserId", int)


@dataclasses.dataclass
class WrappedFields:
    plain: int
    ann: typing.Annotated[int, "meta"]
    newt: UserId
    both: typing.Annotated[UserId, 1]


def wrapped_location_chains(ctx: Ctx) -> None:
    """Router.tla ChainOnce on locations whose type is a wrapper of the same value (NewType, Annotated: "treated as origin"): the
    location is ONE request, so a chain link whose predicate does not pin the spelled type (a field name, P[M].f, P.ANY, a
    negation) composes with the next provider exactly once - as it does for the plain field next to it.  Abstract cases: the
    one-link recipes [predY/first], [predY/last], [predY/deleg] of Router.tla with the builtin tail."""
    from adaptix import Chain, P, Retort, dumper, loader, validator
    n = 0
    inc = lambda v: v + 1  # noqa: E731
    for side, facade in (("load", loader), ("dump", dumper)):
        for chain in (Chain.FIRST, Chain.LAST):
            for pname, pred in (("field_name", lambda f: f), ("P[M].f", lambda f: getattr(P[WrappedFields], f)), ("P.ANY", lambda f: P.ANY),
                                ("negation", lambda f: ~P[str] & getattr(P, f))):
                for f in ("ann", "newt", "both"):
                    n += 1
                    recipe = [facade(pred(f), inc, chain), facade(pred("plain"), inc, chain)] if pname != "P.ANY" else [facade(P.ANY & (P.plain | getattr(P, f)), inc, chain)]
                    try:
                        r = Retort(recipe=recipe)
                        if side == "load":
                            got = r.load({"plain": 0, "ann": 0, "newt": 0, "both": 0}, WrappedFields)
                            got = {"plain": got.plain, f: getattr(got, f)}
                        else:
                            d = r.dump(WrappedFields(0, 0, 0, 0))
                            got = {"plain": d["plain"], f: d[f]}
                    except Exception as e:  # noqa: BLE001
                        ctx.violation({"what": "chain_on_wrapped_location_raises", "exc": type(e).__name__}, f"{side} {chain.name} {pname} on field {f}: {type(e).__name__}: {str(e)[:120]}", {})
                        continue
                    if got["plain"] != 1:
                        raise MachineryError(f"wrapped_location_chains: the plain field was composed {got['plain']} times ({side} {chain.name} {pname})")
                    if got[f] != 1:
                        ctx.violation({"what": "chain_link_applied_again_after_unwrapping", "wrapper": {"ann": "Annotated", "newt": "NewType", "both": "Annotated[NewType]"}[f]},
                                      f"{side}er({pname} of field {f}: {WrappedFields.__annotations__[f]}, v -> v + 1, Chain.{chain.name}): the link was applied "
                                      f"{got[f]} times (0 became {got[f]}); on the plain int field next to it once", {"side": side, "chain": chain.name, "pred": pname, "field": f})
    calls: list = []
    Retort(recipe=[validator("ann", lambda x: calls.append(x) or True, "bad")]).load({"plain": 0, "ann": 0, "newt": 0, "both": 0}, WrappedFields)
    n += 1
    if len(calls) != 1:
        ctx.violation({"what": "chain_link_applied_again_after_unwrapping", "wrapper": "Annotated", "via": "validator"},
                      f"validator('ann', f, 'bad') on a field typed Annotated[int, 'meta']: f ran {len(calls)} times for one load", {})
    ctx.replayed += n


def recursive_chains(ctx: Ctx) -> None:
    """Router.tla StubIsFinal on the real library: chaining providers bound to a location that is re-entered recursively (through
    the recursion stub) compose with the next provider exactly once at EVERY level of a nested datum.  Self-referential models,
    the facade's loader()/dumper() with Chain.FIRST / Chain.LAST, predicates on the model, on the recursive field and on its
    container; data nested three levels; expected values computed by applying the user functions once per level."""
    from adaptix import Chain, P, Retort, dumper, loader
    n = 0

    def check(label, got, want):
        nonlocal n
        n += 1
        if got != want:
            ctx.violation({"mismatch": "recursive_chain", "label": label.split(":")[0]}, f"{label}: got {got!r}, composing exactly once at every level gives {want!r}",
                          {"label": label, "got": repr(got), "want": repr(want)})
    tree = {"v": 1, "kids": [{"v": 2, "kids": [{"v": 3, "kids": []}]}, {"v": 4, "kids": []}]}
    chain_d = {"v": 1, "next": {"v": 2, "next": {"v": 3, "next": None}}}

    def bump(d):                    # Chain.FIRST on the model location: runs on the raw dict before the model loader
        return {**d, "v": d["v"] * 10}

    def want_tree(d, f):
        return RNode(f(d["v"]), [want_tree(k, f) for k in d["kids"]])

    def want_link(d, f):
        return None if d is None else Link(f(d["v"]), want_link(d["next"], f))
    for requested in (RNode, List[RNode]):
        datum = tree if requested is RNode else [tree, tree]
        wrap = (lambda x: x) if requested is RNode else (lambda x: [x, x])
        # FIRST on the model: every level sees its dict bumped once
        r = Retort(recipe=[loader(RNode, bump, Chain.FIRST)])
        check(f"loader(RNode, bump, FIRST) requested as {requested}", r.load(datum, requested), wrap(want_tree(tree, lambda v: v * 10)))
        # LAST on the model: every loaded node is post-processed once
        r = Retort(recipe=[loader(RNode, lambda o: RNode(o.v + 100, o.kids), Chain.LAST)])
        check(f"loader(RNode, post, LAST) requested as {requested}", r.load(datum, requested), wrap(want_tree(tree, lambda v: v + 100)))
        # FIRST on the recursive field: the list of children is reversed once at every level
        r = Retort(recipe=[loader(P[RNode].kids, lambda xs: list(reversed(xs)), Chain.FIRST)])

        def rev(d):
            return RNode(d["v"], [rev(k) for k in reversed(d["kids"])])
        check(f"loader(P[RNode].kids, reversed, FIRST) requested as {requested}", r.load(datum, requested), wrap(rev(tree)))
        # LAST on the recursive field + FIRST on the model together (two chains on two locations of the cycle)
        r = Retort(recipe=[loader(P[RNode].kids, lambda xs: xs + [RNode(0)], Chain.LAST), loader(RNode, bump, Chain.FIRST)])

        def both(d):
            return RNode(d["v"] * 10, [both(k) for k in d["kids"]] + [RNode(0)])
        check(f"loader(kids, append, LAST) + loader(RNode, bump, FIRST) requested as {requested}", r.load(datum, requested), wrap(both(tree)))
        # dumper side
        obj = want_tree(tree, lambda v: v)
        r = Retort(recipe=[dumper(RNode, lambda d: {**d, "tag": 1}, Chain.LAST)])

        def tagged(d):
            return {"v": d["v"], "kids": [tagged(k) for k in d["kids"]], "tag": 1}
        check(f"dumper(RNode, tag, LAST) requested as {requested}", r.dump(wrap(obj), requested), wrap(tagged(tree)))
        r = Retort(recipe=[dumper(P[RNode].kids, lambda xs: list(xs)[::-1], Chain.LAST)])

        def drev(d):
            return {"v": d["v"], "kids": [drev(k) for k in d["kids"]][::-1]}
        check(f"dumper(P[RNode].kids, reversed, LAST) requested as {requested}", r.dump(wrap(obj), requested), wrap(drev(tree)))
    # Optional recursion
    r = Retort(recipe=[loader(P[Link].next, lambda d: d if d is None else {**d, "v": d["v"] + 1}, Chain.FIRST)])

    def lk(d, top=True):
        return None if d is None else Link(d["v"] + (0 if top else 1), lk(d["next"], False))
    check("loader(P[Link].next, inc, FIRST)", r.load(chain_d, Link), lk(chain_d))
    r = Retort(recipe=[loader(Link, lambda o: Link(-o.v, o.next), Chain.LAST)])
    check("loader(Link, neg, LAST)", r.load(chain_d, Link), want_link(chain_d, lambda v: -v))
    r = Retort(recipe=[loader(Link, lambda o: Link(-o.v, o.next), Chain.LAST), loader(Link, bump, Chain.FIRST)])
    check("loader(Link, neg, LAST) + loader(Link, bump, FIRST)", r.load(chain_d, Link), want_link(chain_d, lambda v: -(v * 10)))
    ctx.replayed += n
    ctx.extra["recursive_chain_checks"] = n


def _replay_chunk(items) -> dict:
    out = {"n": 0, "bad": [], "errors": []}
    for gseed, case in items:
        try:
            r = build_nested_and_run(case, gseed) if "inner" in case else build_and_run(case, gseed)
        except Exception as ex:  # noqa: BLE001
            import traceback
            out["errors"].append({"case": case, "exc": repr(ex), "tb": traceback.format_exc()[-1500:]})
            continue
        out["n"] += 1
        if r["mismatch"]:
            out["bad"].append({"case": case, **r})
    return out


def replay_cases(ctx: Ctx, cases, gseed: int) -> None:
    bad = []
    errors = []

    for o in pmap(_replay_chunk, ((gseed, c) for c in cases), chunk=250):
        ctx.replayed += o["n"]
        bad += o["bad"]
        errors += o["errors"]
    for b in bad + errors:
        if "inner" in b["case"]:
            b["case"]["rec"] = b["case"]["pre"] + [{"c": "retort:" + b["case"]["w"], "h": _short(b["case"]["inner"])}] + b["case"]["post"]
    bad.sort(key=lambda b: (len(b["case"]["rec"]), json.dumps(b["case"]["rec"])))
    for b in bad:
        ctx.violation({"mismatch": b["mismatch"]},
                      f"recipe {_short(b['case']['rec'])}: expected {b['exp']} observed {b['obs']}",
                      {"case": b["case"], "expected": b["exp"], "observed": b["obs"], "providers": b["desc"],
                       "layout": b["layout"], "gseed": gseed, "n_cases_with_this_mismatch": sum(1 for x in bad if x["mismatch"] == b["mismatch"])})
    errors.sort(key=lambda b: len(b["case"]["rec"]))
    for er in errors[:1]:
        ctx.violation({"mismatch": "exception", "exc": er["exc"][:80]},
                      f"recipe {_short(er['case']['rec'])}: unexpected exception {er['exc']}",
                      {"case": er["case"], "traceback": er["tb"], "gseed": gseed})


def _short(rec) -> str:
    return "[" + ", ".join(f"{p['c']}/{p['h']}" for p in rec) + "]"


# ------------------------------------------------------------------------------------------------
# code -> spec: random long recipes, recorded marker logs, validated by Trace_Router.tla
# ------------------------------------------------------------------------------------------------
def build_and_run_logged(case: dict, gseed: int) -> dict:
    """Like build_and_run but every provider is a marker (full log) and nothing is compared here:
    the observation is returned as a trace record for the TLA+ monitor.  Indices above 9 are allowed
    (terms are lists, not digits)."""
    e = env()
    rng = random.Random(f"T{gseed}:{json.dumps(case['rec'], sort_keys=True)}:{case['tail']}")
    rec, tail = case["rec"], case["tail"]
    Chain, bound, ChainingProvider, Provider = e["Chain"], e["bound"], e["ChainingProvider"], e["Provider"]
    CannotProvide = e["CannotProvide"]
    log: list[int] = []
    field_variant = False

    def mk(idx, kind):
        class Marker(Provider):
            def get_request_handlers(self):
                def handler(mediator, request):
                    if request.last_loc.type is int:
                        log.append(idx)
                    if kind in ("func", "plain"):
                        return lambda x: x + [idx]
                    if kind == "decline":
                        raise CannotProvide
                    if kind == "abort":
                        raise CannotProvide(is_terminal=True)
                    nxt = mediator.provide_from_next()
                    return lambda x: nxt(x) + [idx]
                return [(e["LoaderRequest"], e["AlwaysTrueRequestChecker"](), handler)]
        return Marker()

    providers = []
    for idx, p in enumerate(rec, start=1):
        choices = preds_for(p["c"], field_variant)
        pred = choices[rng.randrange(len(choices))]
        if p["h"] in ("first", "last"):
            chain = Chain.FIRST if p["h"] == "first" else Chain.LAST
            providers.append(bound(pred, ChainingProvider(chain, mk(idx, "func"))))
        else:
            providers.append(bound(pred, mk(idx, p["h"])))
    n = len(providers)
    cut = rng.randint(0, n)
    if tail:
        # the builtin tail is replaced by an own last provider serving int with tag n+1, so the monitor sees it
        tail_p = bound(P_ANY(), mk(n + 1, "plain"))
        providers_full = providers + [tail_p]
    else:
        providers_full = providers
    retort = e["Bare"](recipe=providers_full[cut:]).extend(recipe=providers_full[:cut])
    from adaptix import ProviderNotFoundError
    try:
        f = retort.get_loader(int)
    except ProviderNotFoundError:
        return {"rec": rec, "tail": tail, "ok": False, "term": [], "log": list(log)}
    return {"rec": rec, "tail": tail, "ok": True, "term": f([]), "log": list(log)}


def P_ANY():
    return env()["P"].ANY


# ------------------------------------------------------------------------------------------------
def run(ctx: Ctx) -> None:
    quick = ctx.tier == "quick"
    ctx.rule = ("cases = recipes (sequences over 5 checker classes x 5 handler kinds) enumerated by TLC from spec/Router.tla, "
                "with and without the builtin tail; each replayed on the real Retort (marker providers, real loader()/dumper() "
                "chain wrappers, random split into extend / instance / two class-recipe levels, random predicate concretisation); "
                "non-trivial = at least one provider matches the request")
    ctx.assumptions = ["marker providers observe consultation faithfully (handler call == consult)",
                       "predicate concretisations in c09.preds_for belong to the stated checker class (checked by C10)"]
    max_len = 3 if quick else 4
    total_cases = 0
    for tail, req in ((False, "A"), (True, "A"), (False, "U"), (True, "U"), (True, "F")):
        cfg = make_cfg(constants=dict(MaxLen=max_len if req != "U" or not quick else 2, ResetComboOnSingle=True, WithTail=tail, Req=f'"{req}"', EmitCases=True),
                       invariants=INVS)
        res = run_tlc(ctx.scratch, "Router", cfg, tag=f"Router_tail{int(tail)}_{req}", coverage=quick, timeout_s=3000)
        ctx.add_tlc(res, f"exhaustive MaxLen={max_len} WithTail={tail} request={req}")
        if not res.ok:
            ctx.model_violation(res, "design model of the router violates its own property")
        cases = []
        for r in res.records():
            cases.append(r)
            nontriv = any(p["c"] in (("exA", "predY") if req == "A" else ("predY",)) for p in r["rec"]) or req == "F"
            ctx.case(_short(r["rec"]) + str(tail) + req, nontrivial=nontriv,
                     sample={"recipe": _short(r["rec"]), "tail": tail, "expected_log": r["log"], "expected_term": r["term"]}
                     if len(r["rec"]) == max_len and nontriv and len(r["log"]) > 2 else None)
        total_cases += len(cases)
        replay_cases(ctx, cases, ctx.seed)
    ctx.exhaustive = True
    # deeper recipes by simulation (spec -> code)
    sim_n = 3000 if quick else 40000
    cfg = make_cfg(constants=dict(MaxLen=8, ResetComboOnSingle=True, WithTail=True, Req='"A"', EmitCases=True), invariants=INVS)
    res = run_tlc(ctx.scratch, "Router", cfg, tag="Router_sim", simulate={"num": sim_n, "depth": 80}, seed=ctx.seed + 1,
                  workers=4, timeout_s=1200)
    ctx.add_tlc(res, f"simulation MaxLen=8 num={sim_n}")
    if not res.ok:
        ctx.model_violation(res, "design model violates its property in simulation")
    seen = set()
    sim_cases = []
    for r in res.records():
        k = _short(r["rec"])
        if k not in seen:
            seen.add(k)
            sim_cases.append(r)
            ctx.case("sim" + k, nontrivial=len(r["log"]) > 0)
    replay_cases(ctx, sim_cases, ctx.seed + 7)
    # retorts placed in recipes (spec/RouterNest.tla)
    nest_len = 2 if quick else 3
    cfg = make_cfg(constants=dict(MaxLen=nest_len, EmitCases=True), invariants=["FlatWhenNoInnerChain", "InnerIsolated", "NoTwice", "ServedByInnerGetsInnerOptions", "EmitCase"])
    res = run_tlc(ctx.scratch, "RouterNest", cfg, tag="RouterNest", timeout_s=3000)
    ctx.add_tlc(res, f"nested retorts, exhaustive up to {nest_len} leaf providers")
    if not res.ok:
        ctx.model_violation(res, "RouterNest.tla violates its own properties")
    cases = list(res.records())
    for r in cases:
        ctx.case("nest" + json.dumps([r["pre"], r["inner"], r["post"], r["cut"], r["w"], r["outer_strict"]]), nontrivial=len(r["log"]) > 0)
    replay_cases(ctx, cases, ctx.seed + 3)
    sim_n = 4000 if quick else 40000
    cfg = make_cfg(constants=dict(MaxLen=6, EmitCases=True), invariants=["FlatWhenNoInnerChain", "InnerIsolated", "NoTwice", "ServedByInnerGetsInnerOptions", "EmitCase"])
    res = run_tlc(ctx.scratch, "RouterNest", cfg, tag="RouterNest_sim", simulate={"num": sim_n, "depth": 12}, seed=ctx.seed + 5, workers=4, timeout_s=1200)
    ctx.add_tlc(res, f"nested retorts, simulation up to 6 leaf providers num={sim_n}")
    if not res.ok:
        ctx.model_violation(res, "RouterNest.tla violates its own properties in simulation")
    seen = set()
    sim_cases = []
    for r in res.records():
        k = json.dumps([r["pre"], r["inner"], r["post"], r["cut"], r["w"], r["outer_strict"]])
        if k not in seen:
            seen.add(k)
            sim_cases.append(r)
            ctx.case("nestsim" + k, nontrivial=len(r["log"]) > 0)
    replay_cases(ctx, sim_cases, ctx.seed + 9)
    nested_scenarios(ctx)
    recursive_chains(ctx)
    wrapped_location_chains(ctx)
    # spec/RouterWrap.tla: locations typed NewType / Annotated - the code-shaped semantics (searched as spelled, then unwrapped by a new
    # request) replayed on the real retort; recipes whose result composes a link twice are the recorded finding
    cfg = make_cfg(constants=dict(MaxLen=2 if quick else 3, EmitCases=True), invariants=["WrapInvisible", "ServedSubset", "EmitCase"])
    res = run_tlc(ctx.scratch, "RouterWrap", cfg, tag="RouterWrap", timeout_s=1200)
    ctx.add_tlc(res, f"exhaustive MaxLen={2 if quick else 3}, request typed NewType / Annotated")
    if not res.ok:
        ctx.model_violation(res, "RouterWrap: the wrapper is not invisible although every predicate pins a type")
    wcases = list(res.records())
    for r in wcases:
        ctx.case("wrap" + _short(r["rec"]), nontrivial=any(p["c"] == "predY" for p in r["rec"]))
    replay_cases(ctx, wcases, ctx.seed + 11)
    n_twice = sum(1 for r in wcases if r["twice"])
    ctx.extra["wrapped_recipes"] = len(wcases)
    ctx.extra["wrapped_recipes_composing_a_link_twice"] = n_twice
    if n_twice:
        w = min((r for r in wcases if r["twice"]), key=lambda r: len(r["rec"]))
        ctx.violation({"what": "chain_link_applied_again_after_unwrapping", "via": "RouterWrap"},
                      f"RouterWrap.tla, confirmed by replay on the real retort: {n_twice} of {len(wcases)} recipes compose a link more than once for a "
                      f"location typed NewType / Annotated, e.g. {_short(w['rec'])}: term {w['term']}", {"case": w})
    cfg = make_cfg(constants=dict(MaxLen=2, EmitCases=False), invariants=["ChainOnceW"])
    res = run_tlc(ctx.scratch, "RouterWrap", cfg, tag="RouterWrap_once", expect_violation=True, timeout_s=600)
    ctx.add_tlc(res, "ChainOnceW on the code-shaped semantics (violated: the recorded finding; witness [predY/last])")
    if res.ok:
        raise MachineryError("RouterWrap: ChainOnceW holds on the code-shaped semantics although the replay agrees with it: model and finding disagree")
    # spec mutant: non-vacuity of the model-level check
    cfg = make_cfg(constants=dict(MaxLen=2, ResetComboOnSingle=False, WithTail=False, Req='"A"', EmitCases=False), invariants=INVS)
    res = run_tlc(ctx.scratch, "Router", cfg, tag="Router_mutant", expect_violation=True, timeout_s=600)
    ctx.add_tlc(res, "spec mutant ResetComboOnSingle=FALSE (must be violated)")
    if res.ok:
        raise MachineryError("spec mutant ResetComboOnSingle=FALSE was not detected by TLC: model check is vacuous")
    ctx.extra["spec_mutant_detected"] = res.violated
    # code -> spec: recorded traces validated by the TLA+ monitor
    from .c09_trace import validate_traces
    validate_traces(ctx, n=1500 if quick else 20000, max_len=14 if quick else 24)


def replay(path: str) -> int:
    data = json.load(open(path))
    r = build_and_run(data["case"], data.get("gseed", 0))
    print(json.dumps({k: r[k] for k in ("mismatch", "exp", "obs", "desc", "layout")}, indent=1, default=str))
    if r["mismatch"]:
        print(f"VIOLATION property=C09 replay={path}")
        return 1
    return 0
