"""C06 - debug_trail changes only reporting: Load.tla / MC_Load.tla sweep replayed on the real library (see vf/loadsweep.py)."""
from __future__ import annotations

import json
import subprocess
import sys

from ..core import Ctx
from ..loadsweep import report, run_sweep

RULE = ("cases = (type, datum) pairs enumerated exhaustively by TLC from spec/MC_Load.tla over the token universe of "
        "spec/PyAxioms.tla, each with the model's verdict (Acc / Errs / Undef) for both coercion modes; every case is executed "
        "on the real Retort in the 6 (strict_coercion x debug_trail) modes with k representatives per token class; "
        "non-trivial = accepted in some mode or rejected below the top-level node")


def run(ctx: Ctx) -> None:
    ctx.rule = RULE
    ctx.assumptions = ["spec/PyAxioms.tla (facts about CPython constructors, generated from CPython at run time)",
                       "gamma/alpha of vf/gamma.py; token classes are constant for every documented rule (checked at run time)"]
    sweep = run_sweep(ctx)
    report(ctx, sweep, "C06")
    extra(ctx, sweep)
    # code -> spec: the calls of the repository's own test-suite, re-run under the other debug_trail settings (Trace_Harvest.tla)
    from .. import harvest
    harvest.check(ctx, "C06")


def extra(ctx: Ctx, sweep: dict) -> None:
    """dump side: documented outer form / the three debug_trail dumpers agree (spec/Dump.tla, MC_Dump.tla)"""
    from ..dumpsweep import report_dump, run_dump_sweep
    report_dump(ctx, run_dump_sweep(ctx), "C06")
    from ..layoutreplay import report as report_layout, run_slices
    total = run_slices(ctx, ["A", "C", "D", "E"] if ctx.tier == "quick" else ["A", "B", "C", "D", "E", "F"], {"F": 2})
    report_layout(ctx, total, "C06")
    # the same programs on models with output-optional fields (TypedDict keys): another generated access / dump path per mode
    from .. import layoutreplay
    layoutreplay.TYPE_PRED_ALLOWED["on"] = False      # Required[int] is not selected by the predicate `int`: known finding of C17, not a C06 matter
    total = run_slices(ctx, ["C", "E"] if ctx.tier == "quick" else ["A", "B", "C", "D", "E", "F"], {"F": 1}, twins=False, kind_tla="typeddict",
                       kinds=["typeddict", "typeddict_total_false"], every=2 if ctx.tier == "quick" else 1)
    report_layout(ctx, total, "C06")


def replay(path: str) -> int:
    data = json.load(open(path))
    print(data.get("what"))
    src = data.get("source")
    if not src:
        return 2
    proc = subprocess.run([sys.executable, "-c", src], capture_output=True, text=True)
    print(proc.stdout + proc.stderr)
    print(f"VIOLATION property=C06 replay={path}")
    return 1
