"""C11 - results never depend on call history; retorts are immutable.  spec/Retort.tla: a history-free layer
(response = function of the construction) and a cached layer (facade cache, call cache with key equality KeyEq);
TLC checks the refinement for typed keys, produces the distinguishing history for Python-== keys (spec mutant) and
enumerates all histories up to MaxHist over a pool of mutually confusable requests and three retort constructions.
The history walker replays every history on real retorts and compares every response (behaviour vector of the returned
loader / dumper) with the response of a freshly constructed equal retort."""
import dataclasses
import json
import random
import traceback
import typing
from decimal import Decimal
from typing import Annotated, Any, List, Literal, NewType, Optional, Sequence, Union

from ..core import Ctx, stable_hash
from ..par import pmap
from ..tlc import MachineryError, make_cfg, run_tlc


@dataclasses.dataclass
class ModelA:
    x: int
    y: str = "d"


@dataclasses.dataclass
class ModelB:
    x: int
    y: str = "d"


@dataclasses.dataclass
class Rec:
    v: int
    nxt: Optional["Rec"] = None


class NoProv:
    def __init__(self, *args):
        self.args = args


NT1 = NewType("NT1", int)
NT2 = NewType("NT2", int)
TYPES = {
    "Lit01": Literal[0, 1], "LitFT": Literal[False, True], "Lit1a": Literal[1, "a"], "LitTa": Literal[True, "a"],
    "List_int": List[int], "list_int": list[int], "Seq_int": Sequence[int], "U_int_str": Union[int, str], "U_str_int": Union[str, int],
    "ModelA": ModelA, "ModelB": ModelB, "NT1": NT1, "NT2": NT2, "int": int, "Ann0": Annotated[int, 0], "AnnF": Annotated[int, False],
    "NoProvider": NoProv, "Rec": Rec,
}
PROBES = [0, 1, True, False, "a", "1", 2, [1], [True], ["1"], (1, 2), {"x": 1}, {"x": 1, "y": "q"}, {"x": "1"}, {"v": 1, "nxt": {"v": 2, "nxt": None}},
          {"v": 1, "nxt": {"v": "x"}}, None, 1.0]
DUMP_VALUES = {"ModelA": ModelA(1, "q"), "ModelB": ModelB(2), "Rec": Rec(1, Rec(2)), "List_int": [1, 2], "list_int": [1], "Seq_int": (1,), "int": 5,
               "Lit01": 1, "LitFT": True, "U_int_str": "s", "U_str_int": 3, "NT1": 4, "NT2": 4, "Ann0": 1, "AnnF": 1, "Lit1a": "a", "LitTa": True}


def make_retorts():
    from adaptix import Retort, loader
    made: dict = {}

    def get(name):
        if name not in made:
            if name == "base":
                made[name] = Retort()
            elif name == "replaced":
                made[name] = get("base").replace(strict_coercion=False)
            else:
                made[name] = get("base").extend(recipe=[loader(int, lambda d: ("custom", d))])
        return made[name]
    return get


@dataclasses.dataclass
class Animal:
    name: str


@dataclasses.dataclass
class Dog(Animal):
    breed: str = "b"


@dataclasses.dataclass
class Pet(Animal):
    owner: str = "o"


@dataclasses.dataclass
class PetDog(Pet, Dog):
    pass


@dataclasses.dataclass
class CSrc:
    a: int
    b: int


@dataclasses.dataclass
class CDst:
    a: int
    b: int


def behaviour(retort, rid: str) -> Any:
    """the observable response to a request: behaviour vector of the produced loader and dumper"""
    from adaptix import ProviderNotFoundError
    from adaptix.load_error import LoadError
    if rid in ("DumpPet", "DumpPetDog"):
        obj = Pet("p") if rid == "DumpPet" else PetDog("pd")
        try:
            return ("dump", repr(retort.dump(obj, Union[Animal, Dog])))
        except Exception as e:  # noqa: BLE001
            return ("dexc", type(e).__name__)
    if rid in ("ConvPlain", "ConvRecipe", "ConvertPlain", "ConvertRecipe"):
        from adaptix import P
        from adaptix.conversion import ConversionRetort, link_constant
        conv_retort = retort.__dict__.setdefault("_vf_conv", ConversionRetort()) if hasattr(retort, "__dict__") else ConversionRetort()
        recipe = [link_constant(P[CDst].b, value=99)] if rid.endswith("Recipe") else []
        try:
            if rid.startswith("Convert"):
                return ("conv", repr(conv_retort.convert(CSrc(1, 2), CDst, recipe=recipe)))
            return ("conv", repr(conv_retort.get_converter(CSrc, CDst, recipe=recipe)(CSrc(1, 2))))
        except Exception as e:  # noqa: BLE001
            return ("cexc", type(e).__name__)
    tp = TYPES[rid]
    try:
        loader = retort.get_loader(tp)
    except ProviderNotFoundError:
        return "refused"
    out = []
    for d in PROBES:
        try:
            v = loader(d)
            out.append(("ok", repr(v), type(v).__name__))
        except LoadError as e:
            out.append(("LoadError", type(e).__name__))
        except Exception as e:  # noqa: BLE001
            out.append(("exc", type(e).__name__))
    if rid in DUMP_VALUES:
        try:
            out.append(("dump", repr(retort.dump(DUMP_VALUES[rid], tp))))
        except Exception as e:  # noqa: BLE001
            out.append(("dexc", type(e).__name__))
    return out


_REF: dict = {}


def reference(rt: str, rid: str) -> Any:
    """response of a freshly constructed equal retort, with an empty normalisation cache"""
    from adaptix._internal.type_tools.normalize_type import _cached_normalize  # noqa: PLC2701
    if (rt, rid) not in _REF:
        _cached_normalize.cache_clear()
        _REF[(rt, rid)] = behaviour(make_retorts()(rt), rid)
    return _REF[(rt, rid)]


def walk(hist: list, out: dict) -> None:
    get = make_retorts()
    kept: list = []
    for step, call in enumerate(hist):
        rt, rid = call["rt"], call["r"]
        retort = get(rt)
        got = behaviour(retort, rid)
        out["calls"] += 1
        want = reference(rt, rid)
        if got != want:
            diff = "refused vs served" if "refused" in (got, want) else [(PROBES[i] if i < len(PROBES) else "dump", a, b) for i, (a, b) in enumerate(zip(got, want)) if a != b][:2]
            out["bad"].append({"sig": {"what": "response_depends_on_history", "request": rid, "retort": rt},
                               "detail": f"history {[(c['rt'], c['r']) for c in hist[:step + 1]]}: response to {rid} on {rt} differs from a fresh retort: {diff}",
                               "size": step + 1, "hist": hist[:step + 1]})
            return
        kept.append((rt, rid, got))
    # loaders obtained earlier keep their behaviour (asked again at the end of the history)
    for rt, rid, first in kept[:-1]:
        again = behaviour(get(rt), rid)
        out["calls"] += 1
        if again != first:
            out["bad"].append({"sig": {"what": "earlier_response_changed_later", "request": rid, "retort": rt},
                               "detail": f"history {[(c['rt'], c['r']) for c in hist]}: {rid} on {rt} answered differently when asked again", "size": len(hist) + 1, "hist": hist})
            return


def _chunk(items) -> dict:
    out: dict = {"calls": 0, "bad": [], "machinery": []}
    for hist in items:
        try:
            walk(hist, out)
        except Exception:  # noqa: BLE001
            out["machinery"].append(f"harness error on {hist}: {traceback.format_exc()[-600:]}")
    best: dict = {}
    for b in out["bad"]:
        k = stable_hash(b["sig"])
        if k not in best or b["size"] < best[k]["size"]:
            best[k] = b
    out["bad"] = list(best.values())
    return out


def immutability(ctx: Ctx) -> None:
    """replace() / extend() return new objects and leave the original and its loaders unchanged"""
    from adaptix import DebugTrail, Retort, dumper, loader
    base = Retort()
    l0 = base.get_loader(int)
    before = behaviour(base, "ModelA"), behaviour(base, "int")
    r2 = base.replace(strict_coercion=False, debug_trail=DebugTrail.FIRST)
    r3 = base.extend(recipe=[loader(int, lambda d: -1), dumper(int, lambda d: -2)])
    behaviour(r2, "ModelA"), behaviour(r3, "int"), behaviour(r3, "ModelA")
    after = behaviour(base, "ModelA"), behaviour(base, "int")
    ctx.replayed += 6
    if r2 is base or r3 is base:
        ctx.violation({"what": "replace_or_extend_returns_self"}, "replace()/extend() returned the original retort", {})
    if before != after or base.get_loader(int) is not l0 or l0("5") if False else before != after:
        ctx.violation({"what": "original_retort_changed_by_replace_or_extend"}, f"{before} -> {after}", {})
    if behaviour(r3, "int") == after[1]:
        ctx.violation({"what": "extend_has_no_effect"}, "extended retort answers int like the base", {})


def run(ctx: Ctx) -> None:
    quick = ctx.tier == "quick"
    ctx.rule = ("histories = sequences of facade calls (get_loader + load over 18 probe data + dump) over a pool of 18 mutually "
                "confusable requests (Literal[0,1] / Literal[False,True], List[int] / list[int] / Sequence[int], unions in both orders, two "
                "models of equal shape, NewTypes, Annotated variants, a type without provider, a recursive model) x 3 retort constructions "
                "(base, replace(strict_coercion=False), extend(loader(int))), enumerated by TLC from spec/Retort.tla: all histories of length "
                "2, and of length 3 (sampled in the quick tier); every response compared with a fresh equal retort; non-trivial = every history")
    ctx.assumptions = ["the response to a request is abstracted to the behaviour vector of the produced loader on 18 probe data plus one dump",
                       "fresh-retort references are computed with an empty normalize_type lru_cache"]
    # refinement on the model, and the spec mutant
    cfg = make_cfg(constants=dict(MaxHist=3, KeyEq='"typed"', EmitCases=False), invariants=["HistoryFree", "FacadeKeysTyped"])
    res = run_tlc(ctx.scratch, "Retort", cfg, tag="Retort_typed", timeout_s=3000)
    ctx.add_tlc(res, "refinement Cached => HistoryFree with typed key equality, all histories of length <= 3")
    if not res.ok:
        ctx.model_violation(res, "Retort.tla: the cached layer does not refine the history-free layer even with typed keys")
    cfg = make_cfg(constants=dict(MaxHist=3, KeyEq='"py"', EmitCases=False), invariants=["HistoryFree"])
    res = run_tlc(ctx.scratch, "Retort", cfg, tag="Retort_py_mutant", timeout_s=3000, expect_violation=True)
    ctx.add_tlc(res, "spec mutant: Python-== key equality (must produce a distinguishing history)")
    if res.ok:
        raise MachineryError("spec mutant KeyEq=py not detected: the refinement check is vacuous")
    ctx.extra["spec_mutant_detected"] = res.violated
    # enumerate histories
    hists = []
    for n in ((2, 3) if True else (2,)):
        cfg = make_cfg(constants=dict(MaxHist=n, KeyEq='"typed"', EmitCases=True), invariants=["HistoryFree", "EmitCase"])
        res = run_tlc(ctx.scratch, "Retort", cfg, tag=f"Retort_hist{n}", timeout_s=3000)
        ctx.add_tlc(res, f"all histories of length {n}")
        hs = [r["hist"] for r in res.records()]
        if n == 3 and quick:
            rng = random.Random(ctx.seed)
            rng.shuffle(hs)
            hs = hs[:25000]
        hists += hs
    for h in hists:
        ctx.nontrivial.add(stable_hash(h))
    ctx.samples += [[(c["rt"], c["r"]) for c in h] for h in hists[:: max(1, len(hists) // 4)][:4]]
    bad, machinery = [], []
    for o in pmap(_chunk, hists, chunk=150):
        ctx.replayed += o["calls"]
        bad += o["bad"]
        machinery += o["machinery"]
    if machinery:
        raise MachineryError(f"{len(machinery)} harness failures, first: {machinery[0]}")
    merged: dict = {}
    for b in bad:
        k = stable_hash(b["sig"])
        if k not in merged or b["size"] < merged[k]["size"]:
            merged[k] = b
    for b in sorted(merged.values(), key=lambda b: b["size"]):
        ctx.violation(b["sig"], f"{b['detail'][:300]}", {"history": b["hist"], "detail": b["detail"]})
    immutability(ctx)
    ctx.evaluations += ctx.replayed
    ctx.exhaustive = not quick
    # code -> spec: the calls of the repository's own test-suite with their variations, judged by spec/Trace_Harvest.tla
    from .. import harvest
    harvest.check(ctx, "C11")


def replay(path: str) -> int:
    data = json.load(open(path))
    out: dict = {"calls": 0, "bad": [], "machinery": []}
    if "history" in data:
        walk(data["history"], out)
    for b in out["bad"]:
        print(b["detail"][:400])
    if out["bad"]:
        print(f"VIOLATION property=C11 replay={path}")
        return 1
    return 0
