"""C18 - enum and flag representations are bijections on their members.  spec/Enum.tla: flag values as bit sets, Python's
validity rule for Flag values, the documented load rule of flag_by_exact_value and flag_by_member_names (option cube);
TLC enumerates all flag classes over 3 bits x options x candidate representations.  Every case is replayed on real
enum.Flag classes: creation, dump of every valid combination, load of the dump (bijection), load of every candidate.
Enum (non-flag) classes with look-alike values are described here and checked for the five providers."""
from __future__ import annotations

import enum
import json
import random
import traceback
from typing import Any

from ..core import Ctx, stable_hash
from ..par import pmap
from ..tlc import MachineryError, make_cfg, run_tlc


# the model's bits are tokens; the concretisation chooses which real bits they are: adjacent ones, or bits so far apart that
# float arithmetic on the values is inexact (the bit-set semantics of the model is the same under any injective choice)
DENSE = {1: 1, 2: 2, 4: 4}
SPREAD = {1: 1, 2: 1 << 31, 4: 1 << 60}
_BITS = dict(DENSE)


def bits_to_int(bs) -> int:
    return sum(_BITS[b] for b in bs)


def make_flag(vals: list, alias: bool):
    members = {}
    ints = sorted(bits_to_int(v) for v in vals)
    for v in ints:
        members[f"M{v}"] = v
    if alias:
        members["ALIAS"] = ints[0]
    return enum.Flag("F", members)


class OtherFlag(enum.Flag):
    Z = 1


def _flat(e: BaseException):
    if isinstance(e, BaseExceptionGroup):
        for s in e.exceptions:
            yield from _flat(s)
    else:
        yield e


def is_load_error(e: BaseException) -> bool:
    from adaptix.load_error import LoadError
    return isinstance(e, LoadError) and all(isinstance(x, LoadError) for x in _flat(e))


def run_exact(case: dict, out: dict) -> None:
    from adaptix import DebugTrail, ProviderNotFoundError, Retort
    cls = make_flag(case["vals"], case["alias"])
    valid = {bits_to_int(v) for v in case["valid"]}
    ints = sorted(bits_to_int(v) for v in case["vals"])

    def add(what, detail):
        out["bad"].append({"sig": {"what": what, "provider": "flag_by_exact_value", "zero_member": 0 in ints,
                                   "multi_bit": any(len(v) > 1 for v in case["vals"])},
                           "detail": f"Flag members {ints}{' + alias' if case['alias'] else ''}: {detail}", "size": len(ints), "case": case})
    # the Python axiom of the model
    for x in range(8):
        try:
            cls(x)
            ok = True
        except ValueError:
            ok = False
        if ok != (x in valid):
            out["machinery"].append(f"Enum.tla Valid disagrees with enum.Flag for members {ints}: value {x} python={ok}")
            return
    for dt in (DebugTrail.ALL, DebugTrail.DISABLE):
        out["runs"] += 1
        try:
            from adaptix import flag_by_exact_value
            # the builtin recipe / the provider named explicitly, bound to the class among several predicates
            preds = [None, (), (cls,), (OtherFlag, cls)][(len(ints) + 2 * case["alias"] + (dt is DebugTrail.ALL)) % 4]
            r = Retort(debug_trail=dt) if preds is None else Retort(recipe=[flag_by_exact_value(*preds)], debug_trail=dt)
            loader, dumper = r.get_loader(cls), r.get_dumper(cls)
            created = True
        except ProviderNotFoundError:
            created = False
        except Exception as e:  # noqa: BLE001
            add("creation_crashes", f"creation raised {type(e).__name__}: {str(e)[:120]}")
            continue
        if created != case["creatable"]:
            if case["creatable"]:
                add("creation_refused_for_supported_class", "loader/dumper creation refused although the class has no skipped bits")
            # an unsupported class that is nevertheless served is not judged (the documentation only says "not supported")
        if not created or not case["creatable"]:
            continue
        combos = {bits_to_int(v) for v in case["combos"]}
        for x in sorted(combos):
            m = cls(x)
            try:
                d = dumper(m)
                back = loader(d)
            except BaseException as e:  # noqa: BLE001
                add("round_trip_raises", f"dump/load of {m!r} raised {type(e).__name__}: {str(e)[:100]}")
                continue
            if d != x or type(d) is not int:
                add("wrong_representation", f"dump({m!r}) = {d!r}, documented {x}")
            if back != m:
                add("not_a_bijection", f"load(dump({m!r})) = {back!r}")
        for x in list(range(-1, 9)) + [True, "1", 1.0, None, [1]]:
            is_valid = type(x) is int and x in combos
            if type(x) is int and x in valid and x not in combos:
                continue          # a nameless pseudo-member: not a combination of members; whether it has a representation is not decided
            try:
                v = loader(x)
                if not is_valid:
                    add("accepts_non_representation", f"load({x!r}) = {v!r}")
                elif v != cls(x):
                    add("loads_wrong_member", f"load({x!r}) = {v!r}")
            except BaseException as e:  # noqa: BLE001
                if is_valid:
                    add("rejects_representation", f"load({x!r}) raised {type(e).__name__}")
                elif not is_load_error(e):
                    add("non_representation_not_rejected_with_LoadError", f"load({x!r}) raised {type(e).__name__}: {str(e)[:80]}")


class StrSub(str):
    pass


def run_names(case: dict, seed: int, out: dict) -> None:
    from adaptix import DebugTrail, NameStyle, ProviderNotFoundError, Retort, flag_by_member_names
    cls = make_flag(case["vals"], case["alias"])
    o = case["opts"]
    ints = sorted(bits_to_int(v) for v in case["vals"])
    rng = random.Random(f"{seed}:{stable_hash(case['vals'])}:{o}")
    style = rng.choice([None, None, NameStyle.LOWER_SNAKE])
    name_of = {v: (f"m{v}" if style else f"M{v}") for v in ints}
    mp = None
    if rng.random() < 0.3:
        v0 = rng.choice(ints)
        mp = {(cls(v0) if rng.random() < 0.5 else f"M{v0}"): f"renamed{v0}"}
        name_of[v0] = f"renamed{v0}"
    valid = {bits_to_int(v) for v in case["valid"]}
    expressible = {bits_to_int(v) for v in case["expressible"]}
    value_of_name = {n: v for v, n in name_of.items()}
    if case["alias"]:
        value_of_name["alias" if style else "ALIAS"] = ints[0]
    allowed_names = {n for n, v in value_of_name.items() if o["compound"] or bin(v).count("1") == 1}

    def add(what, detail):
        out["bad"].append({"sig": {"what": what, "provider": "flag_by_member_names", "compound": o["compound"], "zero_member": 0 in ints,
                                   "alias": case["alias"]},
                           "detail": f"Flag members {ints}{' + alias' if case['alias'] else ''}, options {o}, style={style}, map={mp}: {detail}",
                           "size": len(ints) + 5 * case["alias"], "case": case})
    for dt in (DebugTrail.ALL, DebugTrail.DISABLE):
        out["runs"] += 1
        try:
            preds = [(), (cls,), (OtherFlag, cls), (cls, OtherFlag)][rng.randrange(4)]
            r = Retort(recipe=[flag_by_member_names(*preds, allow_single_value=o["single"], allow_duplicates=o["dups"], allow_compound=o["compound"],
                                                    name_style=style, map=mp)], debug_trail=dt)
            loader, dumper = r.get_loader(cls), r.get_dumper(cls)
        except Exception as e:  # noqa: BLE001
            add("creation_fails", f"creation raised {type(e).__name__}: {str(e)[:120]}")
            continue
        for x in sorted(bits_to_int(v) for v in case["combos"]):
            m = cls(x)
            try:
                d = dumper(m)
            except BaseException as e:  # noqa: BLE001
                if x in expressible:
                    add("dump_raises", f"dump({m!r}) raised {type(e).__name__}: {str(e)[:100]}")
                continue
            if not isinstance(d, list) or any(n not in allowed_names for n in d):
                add("wrong_representation", f"dump({m!r}) = {d!r}; allowed names {sorted(allowed_names)}")
                continue
            acc = 0
            for n in d:
                acc |= value_of_name[n]
            if acc != x:
                add("dumped_names_denote_another_value", f"dump({m!r}) = {d!r} which denotes {acc}")
                continue
            if not o["dups"] and len(set(d)) != len(d):
                add("dump_not_loadable_by_own_loader", f"dump({m!r}) = {d!r} has duplicates although allow_duplicates=False")
            try:
                back = loader(d)
                if back != m:
                    add("not_a_bijection", f"load(dump({m!r})) = load({d!r}) = {back!r}")
            except BaseException as e:  # noqa: BLE001
                add("not_a_bijection", f"load(dump({m!r})) = load({d!r}) raised {type(e).__name__}")
        for cand in case["cands"]:
            junk = {"bad": ["nope", "zz"], "unhash": [["A"], {}, bytearray(b"A"), {"A"}], "nonstr": [5, None, ("A",), 1.5]}
            names = [(name_of[bits_to_int(it["v"])] if it["k"] == "m" else junk[it["k"]][(len(cand["items"]) + pos + len(case["vals"])) % len(junk[it["k"]])])
                     for pos, it in enumerate(cand["items"])]
            datum: Any = names[0] if cand["single"] else names
            try:
                v = loader(datum)
                if not cand["out"]["ok"]:
                    add("accepts_non_representation", f"load({datum!r}) = {v!r}")
                elif v.value != bits_to_int(cand["out"]["v"]):
                    add("loads_wrong_member", f"load({datum!r}) = {v!r}, documented value {bits_to_int(cand['out']['v'])}")
            except BaseException as e:  # noqa: BLE001
                if cand["out"]["ok"]:
                    add("rejects_representation", f"load({datum!r}) raised {type(e).__name__}: {str(e)[:80]}")
                elif not is_load_error(e):
                    add("non_representation_not_rejected_with_LoadError", f"load({datum!r}) raised {type(e).__name__}")
        for datum in (5, None, {"M1": 1}, 1.5):
            try:
                v = loader(datum)
                add("accepts_non_representation", f"load({datum!r}) = {v!r}")
            except BaseException as e:  # noqa: BLE001
                if not is_load_error(e):
                    add("non_representation_not_rejected_with_LoadError", f"load({datum!r}) raised {type(e).__name__}")
        # a string - of whatever class - is one name, never a list of one-letter names (members renamed to single letters)
        singles = [v for v in ints if bin(v).count("1") == 1][:2]
        if len(singles) == 2:
            letters = {cls(v): "xy"[i] for i, v in enumerate(singles)}
            try:
                lr = Retort(recipe=[flag_by_member_names(allow_single_value=o["single"], allow_duplicates=o["dups"], allow_compound=o["compound"],
                                                         map=letters)], debug_trail=dt).get_loader(cls)
            except Exception as e:  # noqa: BLE001
                add("creation_fails", f"creation with map to single letters raised {type(e).__name__}: {str(e)[:120]}")
                continue
            for datum in ("xy", StrSub("xy")):
                try:
                    v = lr(datum)
                    add("accepts_non_representation", f"members renamed to 'x', 'y': load({datum!r} of class {type(datum).__name__}) = {v!r}", )
                    out["bad"][-1]["sig"]["datum_class"] = type(datum).__name__
                except BaseException as e:  # noqa: BLE001
                    if not is_load_error(e):
                        add("non_representation_not_rejected_with_LoadError", f"load({datum!r}) raised {type(e).__name__}")


# ---- enum (non-flag) classes -------------------------------------------------------------------------
def enum_classes() -> dict:
    class Plain(enum.Enum):
        A = 1
        B = 2
        C = "c"

    class LookAlike(enum.Enum):
        ONE = 1
        TWO = 2
        STR_ONE = "1"
        NAME_OF_OTHER = "ONE"

    class Aliased(enum.Enum):
        X = 1
        Y = 2
        X_ALIAS = 1

    class StrMix(str, enum.Enum):
        A = "B"
        B = "x"
        snake_case_name = "s"

    class IntMix(enum.IntEnum):
        ZERO = 0
        ONE = 1
        TEN = 10

    class Tup(enum.Enum):
        P = (1, 2)
        Q = (1, 3)
    class Unhashable(enum.Enum):           # member values that CPython keeps out of _value2member_map_
        TRI = [3, "sides"]
        BOX = {"n": 4}
        ONE = 1
    return {c.__name__: c for c in (Plain, LookAlike, Aliased, StrMix, IntMix, Tup, Unhashable)}


def run_enums(ctx: Ctx) -> None:
    from adaptix import DebugTrail, NameStyle, P, Retort, enum_by_exact_value, enum_by_name, enum_by_value
    classes = enum_classes()
    n = 0

    class Unrelated(enum.Enum):
        U = "u"

    def add(prov, cname, what, detail):
        ctx.violation({"what": what, "provider": prov, "class": cname}, f"{prov} on {cname}: {detail}", {"class": cname, "provider": prov, "detail": detail})
    for cname, cls in classes.items():
        canon = list(cls)                      # canonical members (aliases excluded)
        provs = [("enum_by_exact_value", [enum_by_exact_value()], lambda m: m.value),
                 ("default", [], lambda m: m.value),
                 ("enum_by_name", [enum_by_name()], lambda m: m.name),
                 ("enum_by_name(UPPER_SNAKE)", [enum_by_name(name_style=NameStyle.UPPER_SNAKE)], lambda m: m.name.upper()),
                 ("enum_by_name(map by name)", [enum_by_name(map={canon[1].name: "renamed"})], lambda m: "renamed" if m is canon[1] else m.name),
                 ("enum_by_name(map by member)", [enum_by_name(map={canon[0]: "renamed"})], lambda m: "renamed" if m is canon[0] else m.name)]
        if cname == "IntMix":
            provs.append(("enum_by_value(int)", [enum_by_value(cls, tp=int)], lambda m: m.value))
        if cname == "StrMix":
            provs.append(("enum_by_value(str)", [enum_by_value(cls, tp=str)], lambda m: m.value))
        # the same providers bound to predicates ("each representation provider" is a function of *preds): the class itself, and
        # the class among several predicates - the provider serves exactly the listed classes, for every request
        for other in (Unrelated,):
            for tag, preds in (("(cls)", (cls,)), ("(Other, cls)", (other, cls)), ("(cls, Other)", (cls, other)), ("(P[cls] | P.zz, Other)", (P[cls] | P.zz, other))):
                provs.append((f"enum_by_exact_value{tag}", [enum_by_exact_value(*preds), enum_by_name()], lambda m: m.value))
                provs.append((f"enum_by_name{tag}", [enum_by_name(*preds), enum_by_exact_value()], lambda m: m.name))
                provs.append((f"enum_by_name{tag}(UPPER_SNAKE)", [enum_by_name(*preds, name_style=NameStyle.UPPER_SNAKE)], lambda m: m.name.upper()))
                if cname in ("IntMix", "StrMix"):
                    provs.append((f"enum_by_value{tag}", [enum_by_value(*preds, tp=int if cname == "IntMix" else str), enum_by_name()], lambda m: m.value))
        for pname, recipe, rep in provs:
            for dt in (DebugTrail.ALL, DebugTrail.DISABLE):
                n += 1
                try:
                    r = Retort(recipe=recipe, debug_trail=dt)
                    loader, dumper = r.get_loader(cls), r.get_dumper(cls)
                except Exception as e:  # noqa: BLE001
                    add(pname, cname, "creation_fails", f"{type(e).__name__}: {str(e)[:120]}")
                    continue
                reps = {}
                for m in canon:
                    try:
                        d = dumper(m)
                        back = loader(d)
                    except BaseException as e:  # noqa: BLE001
                        add(pname, cname, "round_trip_raises", f"{m!r}: {type(e).__name__}: {str(e)[:100]}")
                        continue
                    want = rep(m)
                    if d != want or type(d) is not type(want):
                        add(pname, cname, "wrong_representation", f"dump({m!r}) = {d!r}, documented {want!r}")
                    if back is not m:
                        add(pname, cname, "not_a_bijection", f"load(dump({m!r})) = load({d!r}) = {back!r}")
                    reps[repr(d)] = m
                if len(reps) != len(canon):
                    add(pname, cname, "two_members_one_representation", f"{len(canon)} members, {len(reps)} distinct representations")
                # candidates that are not the representation of any member
                valid = [rep(m) for m in canon]
                for cand in ["nope", 99, None, 1.5, [1], "ONE", "A", "B", 1, "1", 0, "c", "x", (1, 2), [1, 2]]:
                    is_rep = any(type(cand) is type(v) and cand == v for v in valid) or (
                        (pname.startswith("enum_by_exact_value") or pname == "default") and any(_eq_hash(cand, v) for v in valid))
                    try:
                        v = loader(cand)
                        if not is_rep and not (pname.startswith("enum_by_value") and dt):   # by-value loaders coerce through tp
                            add(pname, cname, "accepts_non_representation", f"load({cand!r}) = {v!r}")
                    except BaseException as e:  # noqa: BLE001
                        if is_rep and type(cand) in (int, str, tuple):
                            add(pname, cname, "rejects_representation", f"load({cand!r}) raised {type(e).__name__}")
                        elif not is_load_error(e):
                            add(pname, cname, "non_representation_not_rejected_with_LoadError", f"load({cand!r}) raised {type(e).__name__}: {str(e)[:80]}")
    # one retort serving all classes: a provider bound to one class must not capture the others
    shared = Retort(recipe=[enum_by_value(classes["IntMix"], tp=int), enum_by_name(classes["Plain"]),
                            enum_by_name(classes["StrMix"], name_style=NameStyle.UPPER_SNAKE)])
    expect = {"IntMix": lambda m: m.value, "Plain": lambda m: m.name, "StrMix": lambda m: m.name.upper()}
    for cname, cls in classes.items():
        rep = expect.get(cname, lambda m: m.value)
        for m in cls:
            n += 1
            try:
                d = shared.dump(m, cls)
                back = shared.load(d, cls)
            except BaseException as e:  # noqa: BLE001
                add("shared retort", cname, "round_trip_raises", f"{m!r}: {type(e).__name__}: {str(e)[:100]}")
                continue
            if d != rep(m) or back is not m:
                add("shared retort", cname, "provider_bound_to_another_class_applied", f"dump({m!r}) = {d!r} (own provider gives {rep(m)!r}), load -> {back!r}")
    ctx.replayed += n
    ctx.extra["enum_class_provider_runs"] = n


def _eq_hash(a, b) -> bool:
    try:
        return a == b and hash(a) == hash(b)
    except TypeError:
        return False


def _chunk(items) -> dict:
    out: dict = {"runs": 0, "bad": [], "machinery": []}
    for seed, case in items:
        try:
            if case["p"] == "exact":
                run_exact(case, out)
            else:
                run_names(case, seed, out)
                _BITS.update(SPREAD)
                try:
                    n0 = len(out["bad"])
                    run_names(case, seed, out)
                    for b in out["bad"][n0:]:
                        b["sig"]["bits"] = "spread"
                finally:
                    _BITS.update(DENSE)
        except Exception:  # noqa: BLE001
            out["machinery"].append(f"harness error on {json.dumps(case)[:200]}: {traceback.format_exc()[-700:]}")
    best: dict = {}
    for b in out["bad"]:
        k = stable_hash(b["sig"])
        if k not in best or b["size"] < best[k]["size"]:
            best[k] = b
    out["bad"] = list(best.values())
    return out


def run(ctx: Ctx) -> None:
    quick = ctx.tier == "quick"
    ctx.rule = ("cases = every Flag class over 3 bits with <= MaxMembers distinct member values (zero-valued, compound, multi-bit, "
                "with and without an alias) x {flag_by_exact_value, flag_by_member_names x 8 option combinations x name_style / map "
                "variants} x every valid flag combination x candidate representations (every int -1..8, every name list of length <= 2 "
                "incl. unknown names, duplicates, bare strings, wrong containers), enumerated by TLC from spec/Enum.tla; plus 6 described "
                "Enum classes with look-alike values x 6-7 providers; non-trivial = every (class, provider) case")
    ctx.assumptions = ["Enum.tla Valid(c, x) is Python's rule for Flag values (checked against enum.Flag for every class at run time)",
                       "a datum ==/hash-equal to a member value counts as its representation for by-exact-value lookup (DESIGN App. B.4)"]
    cases = []
    for part in (1, 2):
        cfg = make_cfg(constants=dict(MaxMembers=3 if quick else 4, EmitCases=True, Part=part),
                       invariants=["ExactBijection", "CompoundCoversAll", "CombosAreValid", "EmitCase"])
        res = run_tlc(ctx.scratch, "Enum", cfg, tag=f"Enum_{part}", timeout_s=3000)
        ctx.add_tlc(res, "flag_by_exact_value" if part == 1 else "flag_by_member_names option cube")
        if not res.ok:
            ctx.model_violation(res, "Enum.tla: documented representation rules are not bijective on the model")
        cases += list(res.records())
    for c in cases:
        ctx.nontrivial.add(stable_hash([c["p"], c["vals"], c["alias"], c.get("opts")]))
    ctx.samples += [{"provider": c["p"], "member_values": sorted(bits_to_int(v) for v in c["vals"]), "alias": c["alias"], "options": c.get("opts"),
                     "valid_values": sorted(bits_to_int(v) for v in c["valid"])} for c in cases[:: max(1, len(cases) // 4)][:4]]
    bad, machinery = [], []
    for o in pmap(_chunk, [(ctx.seed, c) for c in cases], chunk=10):
        ctx.replayed += o["runs"]
        bad += o["bad"]
        machinery += o["machinery"]
    if machinery:
        raise MachineryError(f"{len(machinery)} harness failures, first: {machinery[0]}")
    merged: dict = {}
    for b in bad:
        k = stable_hash(b["sig"])
        if k not in merged or b["size"] < merged[k]["size"]:
            merged[k] = b
    for b in sorted(merged.values(), key=lambda b: b["size"]):
        ctx.violation(b["sig"], f"{b['sig']['what']}: {b['detail'][:260]}", {"case": {k: v for k, v in b["case"].items() if k != "cands"}, "detail": b["detail"]})
    run_enums(ctx)
    ctx.evaluations += ctx.replayed
    ctx.exhaustive = True


def replay(path: str) -> int:
    data = json.load(open(path))
    print(data.get("what"))
    print(f"VIOLATION property=C18 replay={path}")
    return 1
