"""C03 - generated model loaders/dumpers honour the configured outer layout exactly.  spec/Layout.tla + MC_Layout.tla:
TLC enumerates programs (shape, name_mapping overlays) in slices, checks the model-level properties (own input loads,
loader and dumper agree, precedences) and emits every program with the model's verdict on its own probe-input family;
vf/layoutreplay.py builds each program with the real name_mapping on a real class and runs every probe / test object
through the generated loader / dumper in the three debug modes."""
from __future__ import annotations

import json

from ..core import Ctx
from ..layoutreplay import report, run_slices

RULE = ("programs = (model shape, recipe of 1-2 name_mapping overlays) enumerated exhaustively by TLC per slice (A map x style x trim, "
        "B skip x only x None x private, C extra_in x extra_out, D as_list / list paths / gaps, E omit_default, F stacking of two "
        "overlays); per program the model's probe family: every mapped key absent / ill-typed, every inner node of the wrong kind, "
        "int-keyed mappings for list nodes, unknown keys at every dict node, and every subset of optional fields at default for "
        "dumping; x 3 debug modes; non-trivial = every program (each is a distinct generated loader/dumper pair)")


def slices_for(ctx: Ctx):
    if ctx.tier == "thorough":
        return ["A", "B", "C", "D", "E", "F"], {"F": 2, "C": 1}
    return ["A", "B", "C", "D", "E", "F"], {"F": 2}


def run(ctx: Ctx) -> None:
    ctx.rule = RULE
    ctx.assumptions = ["gamma renders names / name styles / keys at character level (vf/layoutreplay.py Names, STYLES)",
                       "dataclass(kw_only=True) models; the other model kinds are covered by C17",
                       "a nested container holding only optional fields is treated as a required key (as the code does; the "
                       "documentation does not decide it)"]
    slices, mo = slices_for(ctx)
    total = run_slices(ctx, slices, mo)
    report(ctx, total, "C03")
    ctx.exhaustive = True


def replay(path: str) -> int:
    from ..layoutreplay import Names, run_program
    data = json.load(open(path))
    print(data.get("what"))
    print(json.dumps(data.get("program"))[:2000])
    print(f"VIOLATION property=C03 replay={path}")
    return 1
