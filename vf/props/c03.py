"""C03 - generated model loaders/dumpers honour the configured outer layout exactly.  spec/Layout.tla + MC_Layout.tla:
TLC enumerates programs (shape, name_mapping overlays) in slices, checks the model-level properties (own input loads,
loader and dumper agree, precedences) and emits every program with the model's verdict on its own probe-input family;
vf/layoutreplay.py builds each program with the real name_mapping on a real class and runs every probe / test object
through the generated loader / dumper in the three debug modes."""

import json

from ..core import Ctx
from ..layoutreplay import report, run_slices

RULE = ("programs = (model shape, recipe of 1-2 name_mapping overlays) enumerated exhaustively by TLC per slice (A map x style x trim, "
        "B skip x only x None x private, C extra_in x extra_out, D as_list / list paths / gaps, E omit_default, F stacking of two "
        "overlays, G output-only fields (field(init=False)) in the middle / at the end of the definition order x as_list x map x skip x "
        "omit_default x forbid); per program the model's probe family: every mapped key absent / ill-typed, every inner node of the wrong kind, "
        "int-keyed mappings for list nodes, unknown keys at every dict node, and every subset of optional fields at default for "
        "dumping; x 3 debug modes; non-trivial = every program (each is a distinct generated loader/dumper pair)")


def slices_for(ctx: Ctx):
    if ctx.tier == "thorough":
        return ["A", "B", "C", "D", "E", "F", "G"], {"F": 2, "C": 1}
    return ["A", "B", "C", "D", "E", "F", "G"], {"F": 2}


def run(ctx: Ctx) -> None:
    ctx.rule = RULE
    ctx.assumptions = ["gamma renders names / name styles / keys at character level (vf/layoutreplay.py Names, STYLES)",
                       "dataclass(kw_only=True) models; the other model kinds are covered by C17",
                       "a nested container holding only optional fields is treated as a required key (as the code does; the "
                       "documentation does not decide it)"]
    slices, mo = slices_for(ctx)
    total = run_slices(ctx, slices, mo)
    report(ctx, total, "C03")
    unhashable_literal_defaults(ctx)
    ctx.exhaustive = True


def unhashable_literal_defaults(ctx: Ctx) -> None:
    """Layout.tla Omitted: "omit_default removes exactly the fields whose value equals their default" - also when the declared
    default is a literal that cannot be hashed (model kinds other than dataclasses allow `b: list = []`); the slices above write
    such defaults as factories only"""
    from typing import Any, NamedTuple

    import attr

    from adaptix import DebugTrail, Retort, name_mapping
    n = 0
    for dname, dflt, other in (("list", [], [1]), ("dict", {}, {"k": 1}), ("set", set(), {1}), ("bytearray", bytearray(), bytearray(b"x"))):
        class NT(NamedTuple):
            a: int
            b: Any = dflt

        @attr.s(auto_attribs=True)
        class AT:
            a: int
            b: Any = dflt

        class PlainInit:
            def __init__(self, a: int, b: Any = dflt):
                self.a, self.b = a, b
        for kind, cls in (("namedtuple", NT), ("attrs", AT)):
            for dt in DebugTrail:
                n += 1
                sig = {"what": "omit_default_with_unhashable_literal_default", "kind": kind}
                try:
                    r = Retort(recipe=[name_mapping(cls, omit_default=True)], debug_trail=dt)
                    at_default, not_default = r.dump(cls(1)), r.dump(cls(1, other))
                except Exception as e:  # noqa: BLE001
                    ctx.violation({**sig, "exc": type(e).__name__}, f"{kind} with the default {dname}() literal, omit_default=True, {dt.name}: "
                                  f"{type(e).__name__}: {str(e)[:120]}", {"kind": kind, "default": dname})
                    continue
                if at_default != {"a": 1} or set(not_default) != {"a", "b"}:
                    ctx.violation(sig, f"{kind} with the default {dname}() literal, omit_default=True, {dt.name}: dump(at default) = {at_default!r}, "
                                  f"dump(other value) = {not_default!r}", {"kind": kind, "default": dname})
        for dt in DebugTrail:       # the loader side of the same default: an absent key gives the declared default
            n += 1
            try:
                got = Retort(debug_trail=dt).load({"a": 1}, PlainInit)
                if got.b != dflt:
                    ctx.violation({"what": "unhashable_literal_default_not_delivered"}, f"class with __init__(b={dname}()): loaded b = {got.b!r}", {})
            except Exception as e:  # noqa: BLE001
                ctx.violation({"what": "unhashable_literal_default_not_delivered", "exc": type(e).__name__},
                              f"class with __init__(b={dname}()), {dt.name}: {type(e).__name__}: {str(e)[:120]}", {})
    ctx.replayed += n


def replay(path: str) -> int:
    from ..layoutreplay import Names, run_program
    data = json.load(open(path))
    print(data.get("what"))
    print(json.dumps(data.get("program"))[:2000])
    print(f"VIOLATION property=C03 replay={path}")
    return 1
