"""C20 - load, dump and convert are pure with respect to their arguments.  spec/Heap.tla states the identity rules (Fresh,
Disjoint, OnlyAsIsAliases); vf heap observations of pairs of successive equal calls on the real library (deep snapshots
of the argument before / after, identities of every mutable container reachable from the two results, from the argument
and from the produced callable) are recorded as ndjson and judged by the TLA+ monitor spec/Trace_Heap.tla.  Sources:
a catalogue of load / dump / convert cases built around every place where adaptix builds a container, the Layout
programs with collected extras, and the dump sweep (a dumper returning its argument)."""
import collections
import copy
import dataclasses
import enum
import json
import types
from decimal import Decimal
from typing import Any, DefaultDict, Deque, Dict, FrozenSet, List, Optional, Set, Tuple, Union

from ..core import Ctx, stable_hash
from ..tlc import MachineryError, make_cfg, run_tlc
from ..trace import validate

MUTABLE = (list, dict, set, bytearray, collections.deque)


def is_model(o: Any) -> bool:
    if isinstance(o, BaseException):
        return False          # raising an exception object decorates it (traceback, trail, notes): not a container of the datum
    if isinstance(o, enum.Enum):
        return False          # members are the class's own singletons, not containers that a call builds
    return hasattr(o, "__dict__") and not isinstance(o, (type, types.FunctionType, types.ModuleType, types.MethodType)) and type(o).__module__ != "builtins"


def containers(obj: Any, acc: Optional[dict] = None, depth: int = 0) -> dict:
    """id -> object for every mutable container / model instance reachable from obj"""
    if acc is None:
        acc = {}
    if depth > 8 or id(obj) in acc:
        return acc
    if isinstance(obj, MUTABLE) or is_model(obj):
        acc[id(obj)] = obj
    if isinstance(obj, dict):
        for k, v in obj.items():
            containers(k, acc, depth + 1)
            containers(v, acc, depth + 1)
    elif isinstance(obj, (list, tuple, set, frozenset, collections.deque)):
        for v in obj:
            containers(v, acc, depth + 1)
    elif is_model(obj):
        for v in vars(obj).values():
            containers(v, acc, depth + 1)
    return acc


def snapshot(obj: Any, depth: int = 0) -> Any:
    if depth > 8:
        return "..."
    if isinstance(obj, dict):
        return ("dict", id(obj), tuple((snapshot(k, depth + 1), snapshot(v, depth + 1)) for k, v in obj.items()))
    if isinstance(obj, (list, tuple, collections.deque)):
        return (type(obj).__name__, id(obj), tuple(snapshot(v, depth + 1) for v in obj))
    if isinstance(obj, (set, frozenset)):
        return (type(obj).__name__, id(obj), frozenset(repr(snapshot(v, depth + 1)) for v in obj))
    if is_model(obj):
        return (type(obj).__name__, id(obj), tuple((k, snapshot(v, depth + 1)) for k, v in sorted(vars(obj).items())))
    return (type(obj).__name__, repr(obj))


def retort_reachable(func: Any) -> dict:
    """mutable containers reachable from a produced callable: closure cells, defaults, constants of generated modules"""
    acc: dict = {}
    seen = set()

    def walk_func(f, depth=0):
        if depth > 6 or id(f) in seen:
            return
        seen.add(id(f))
        code = getattr(f, "__code__", None)
        if code is not None and "adaptix" not in code.co_filename:
            return          # user supplied code (saturators, extractors, factories of the harness): its state is not the retort's
        for cell in getattr(f, "__closure__", None) or ():
            try:
                v = cell.cell_contents
            except ValueError:
                continue
            visit(v, depth)
        for v in getattr(f, "__defaults__", None) or ():
            visit(v, depth)
        g = getattr(f, "__globals__", None)
        code = getattr(f, "__code__", None)
        if g is not None and code is not None and "adaptix generated" in getattr(code, "co_filename", ""):
            for name in code.co_names:
                if name in g:
                    visit(g[name], depth)

    def visit(v, depth):
        if isinstance(v, (types.FunctionType, types.MethodType)):
            walk_func(v, depth + 1)
        elif hasattr(v, "__call__") and hasattr(v, "__closure__"):
            walk_func(v, depth + 1)
        elif isinstance(v, (list, tuple, dict, set, frozenset, collections.deque)) or is_model(v):
            if isinstance(v, (tuple, list)) and any(isinstance(x, (types.FunctionType,)) for x in v):
                for x in v:
                    visit(x, depth + 1)
            containers(v, acc)
    walk_func(func)
    return acc


# ---- the catalogue -------------------------------------------------------------------------------------
@dataclasses.dataclass
class Inner:
    xs: List[int]


@dataclasses.dataclass
class Outer:
    inner: Inner
    tags: List[str] = dataclasses.field(default_factory=list)
    meta: Dict[str, int] = dataclasses.field(default_factory=dict)
    anything: Any = None


@dataclasses.dataclass
class WithRest:
    a: int
    rest: Dict[str, Any] = dataclasses.field(default_factory=dict)


@dataclasses.dataclass
class AnyRest:
    rest: Any


class Sat:
    def __init__(self, a: int):
        self.a = a
        self.extra = None


class Kw:
    def __init__(self, a: int, **kwargs):
        self.a = a
        self.kwargs = kwargs


@dataclasses.dataclass
class Holder:
    a: int
    own_extra: dict = dataclasses.field(default_factory=lambda: {"k": [1]})


@dataclasses.dataclass
class SrcM:
    xs: List[int]
    inner: Inner
    d: Dict[str, List[int]]


@dataclasses.dataclass
class DstInner:
    xs: List[int]


@dataclasses.dataclass
class DstM:
    xs: List[int]
    inner: DstInner
    d: Dict[str, List[int]]
    made: Any = None


class Fl(enum.Flag):
    A = 1
    B = 2
    C = 4
    AB = 3


def catalogue() -> list:
    from adaptix import ExtraKwargs, P, Retort, flag_by_member_names, name_mapping
    from adaptix.conversion import get_converter, link_constant, link_function

    def L(tp, arg, asis=lambda a: [], recipe=(), **opts):
        return {"op": "load", "tp": tp, "arg": arg, "asis": asis, "recipe": list(recipe), **opts}

    def D(tp, arg, asis=lambda a: [], recipe=(), **opts):
        return {"op": "dump", "tp": tp, "arg": arg, "asis": asis, "recipe": list(recipe), **opts}

    def saturator(m, extra):
        m.extra = extra
    cases = [
        L(List[int], lambda: [1, 2, 3]), L(List[List[int]], lambda: [[1], [2, 3]]), L(Dict[str, List[int]], lambda: {"a": [1], "b": []}),
        L(Set[int], lambda: [1, 2]), L(FrozenSet[int], lambda: [1, 2]), L(Deque[int], lambda: [1, 2]), L(Tuple[int, ...], lambda: [1, 2]),
        L(Tuple[List[int], int], lambda: [[1], 2]), L(DefaultDict[str, List[int]], lambda: {"a": [1]}), L(Optional[List[int]], lambda: [1]),
        L(Union[List[int], Dict[str, int]], lambda: {"a": 1}),
        L(List[Any], lambda: [[1], {"k": 2}], asis=lambda a: list(a)), L(Any, lambda: {"a": [1]}, asis=lambda a: [a]),
        L(Dict[str, Any], lambda: {"a": [1], "b": {"c": 1}}, asis=lambda a: list(a.values())),
        L(Inner, lambda: {"xs": [1, 2]}), L(Outer, lambda: {"inner": {"xs": [1]}}), L(Outer, lambda: {"inner": {"xs": [1]}, "tags": ["t"], "meta": {"m": 1}, "anything": [9]},
                                                                                   asis=lambda a: [a["anything"]]),
        L(List[Outer], lambda: [{"inner": {"xs": [1]}}, {"inner": {"xs": []}}]),
        L(WithRest, lambda: {"a": 1, "u1": [1], "u2": {"k": 2}}, asis=lambda a: [a["u1"], a["u2"]], recipe=[name_mapping(WithRest, extra_in="rest")]),
        L(WithRest, lambda: {"a": 1}, recipe=[name_mapping(WithRest, extra_in="rest")]),
        L(AnyRest, lambda: {"u1": [1]}, asis=lambda a: [a["u1"]], recipe=[name_mapping(AnyRest, extra_in="rest")]),
        L(Sat, lambda: {"a": 1, "u1": [1]}, asis=lambda a: [a["u1"]], recipe=[name_mapping(Sat, extra_in=saturator)]),
        L(Kw, lambda: {"a": 1, "u1": [1]}, asis=lambda a: [a["u1"]], recipe=[name_mapping(Kw, extra_in=ExtraKwargs())]),
        L(Outer, lambda: {"nest": {"inner": {"xs": [1]}}, "tags": ["x"]}, recipe=[name_mapping(Outer, map={"inner": ("nest", ...)})]),
        L(Inner, lambda: [[1, 2]], recipe=[name_mapping(Inner, as_list=True)]),
        D(List[int], lambda: [1, 2]), D(List[List[int]], lambda: [[1], [2]]), D(Dict[str, List[int]], lambda: {"a": [1]}), D(Set[int], lambda: {1, 2}),
        D(Tuple[List[int], int], lambda: ([1], 2)), D(Deque[List[int]], lambda: collections.deque([[1]])), D(Optional[List[int]], lambda: [1]),
        D(List[Any], lambda: [[1], {"k": 2}], asis=lambda a: list(a)), D(Any, lambda: {"a": [1]}, asis=lambda a: [a]),
        D(Dict[str, Decimal], lambda: {"a": Decimal(1)}),
        D(Inner, lambda: Inner([1, 2])), D(Outer, lambda: Outer(Inner([1]), ["t"], {"m": 1}, [9]), asis=lambda a: [a.anything]),
        D(List[Outer], lambda: [Outer(Inner([1])), Outer(Inner([]))]),
        D(Outer, lambda: Outer(Inner([1])), recipe=[name_mapping(Outer, omit_default=True)]),
        D(WithRest, lambda: WithRest(1, {"u1": [1]}), asis=lambda a: [a.rest["u1"]], recipe=[name_mapping(WithRest, extra_out="rest")]),
        D(WithRest, lambda: WithRest(1, {}), recipe=[name_mapping(WithRest, extra_out="rest")]),
        D(AnyRest, lambda: AnyRest({"u1": [1]}), asis=lambda a: [a.rest["u1"]], recipe=[name_mapping(AnyRest, extra_out="rest")]),
        D(Holder, lambda: Holder(1), asis=lambda a: [a.own_extra["k"]], recipe=[name_mapping(Holder, skip=["own_extra"], extra_out=lambda m: m.own_extra)]),
        D(Holder, lambda: Holder(1), asis=lambda a: [a.own_extra["k"]], recipe=[name_mapping(Holder, skip=["own_extra", "a"], extra_out=lambda m: m.own_extra)]),
        D(Outer, lambda: Outer(Inner([1]), ["x"]), recipe=[name_mapping(Outer, map={"inner": ("nest", ...)})]),
        D(Inner, lambda: Inner([1, 2]), recipe=[name_mapping(Inner, as_list=True)]),
    ]
    # representation providers that build a container: the list of member names of a flag (each option cube corner that changes the code path)
    for opts in ({}, {"allow_compound": False}, {"allow_single_value": True, "allow_duplicates": False}):
        fl = [flag_by_member_names(**opts)]
        cases += [D(Fl, lambda: Fl.A | Fl.C, recipe=fl), D(Fl, lambda: Fl(0), recipe=fl), D(Fl, lambda: Fl.AB, recipe=fl),
                  D(List[Fl], lambda: [Fl.A, Fl.A, Fl.B | Fl.C], recipe=fl), D(Dict[str, Fl], lambda: {"k": Fl.A, "l": Fl.A}, recipe=fl),
                  L(Fl, lambda: ["A", "C"], recipe=fl), L(List[Fl], lambda: [["A"], ["A"]], recipe=fl)]
    # converters: same-type fields are documented as passed as is; everything else adaptix builds is new
    for label, factory in (("list", list), ("dict", dict), ("deque", collections.deque), ("custom", lambda: {"k": [1]}), ("model", lambda: Inner([7]))):
        cases.append({"op": "convert", "label": f"link_constant(factory={label})", "arg": lambda: SrcM([1], Inner([2]), {"k": [3]}),
                      "asis": lambda a: [a.xs, a.d] + list(a.d.values()),
                      "make": lambda factory=factory: get_converter(SrcM, DstM, recipe=[link_constant(P[DstM].made, factory=factory)])})
    cases.append({"op": "convert", "label": "link_function", "arg": lambda: SrcM([1], Inner([2]), {"k": [3]}), "asis": lambda a: [a.xs, a.d] + list(a.d.values()),
                  "make": lambda: get_converter(SrcM, DstM, recipe=[link_function(lambda m: [len(m.xs)], P[DstM].made)])})
    return cases


def observe(case: dict, dt) -> dict:
    from adaptix import Retort
    if case["op"] == "convert":
        func = case["make"]()
        label = case["label"]
    else:
        retort = Retort(recipe=case["recipe"], debug_trail=dt)
        func = retort.get_loader(case["tp"]) if case["op"] == "load" else retort.get_dumper(case["tp"])
        label = f"{case['op']} {getattr(case['tp'], '__name__', case['tp'])!s}"[:60] + (" +recipe" if case["recipe"] else "")
    arg = case["arg"]()
    before = snapshot(arg)
    arg_c = containers(arg)
    asis_c: dict = {}
    for o in case["asis"](arg):
        containers(o, asis_c)
    r1 = func(arg)
    mid = snapshot(arg)
    r2 = func(arg)
    after = snapshot(arg)
    rr = retort_reachable(func)
    c1, c2 = containers(r1), containers(r2)
    # renumber identities in order of first appearance
    num: dict = {}

    def n(ids):
        out = []
        for i in ids:
            if i not in num:
                num[i] = len(num) + 1
            out.append(num[i])
        return out
    try:
        equal = r1 == r2 if not isinstance(r1, (Sat, Kw)) else vars(r1) == vars(r2)
    except Exception:  # noqa: BLE001
        equal = repr(r1) == repr(r2)
    return {"label": label, "dt": getattr(dt, "name", "-"), "arg": n(arg_c), "retort": n(rr), "asis": n(asis_c), "res1": n(c1), "res2": n(c2),
            "arg_same": before == mid == after, "repeat_equal": bool(equal),
            "_detail": {"arg": repr(arg)[:200], "res1": repr(r1)[:200],
                        "shared_res": [repr(c1[i])[:80] for i in c1 if i in c2 and i not in asis_c][:3],
                        "res_in_arg": [repr(c1[i])[:80] for i in c1 if i in arg_c and i not in asis_c][:3],
                        "res_in_retort": [repr(c1[i])[:80] for i in c1 if i in rr][:3]}}


def run(ctx: Ctx) -> None:
    from adaptix import DebugTrail
    ctx.rule = ("observations = pairs of successive equal calls with deep snapshots and identity sets, for a catalogue of ~55 load / dump / "
                "convert cases x 3 debug modes covering every place where adaptix builds a container (lists, dicts, sets, deques, tuples, "
                "defaultdicts, nested models, default factories, collected extras for target field / kwargs / saturator, extra_out target / "
                "extractor, omit_default, flattened and list layouts, converters with link_constant factories and link_function) plus the "
                "dump sweep's identity check; judged by spec/Trace_Heap.tla; non-trivial = every observation")
    ctx.assumptions = ["mutable containers = list / dict / set / deque / bytearray / model instances; sharing of immutable values is not judged",
                       "retort-reachable identities = closure cells, defaults and referenced globals of the produced (generated) callables",
                       "values at Any / object positions, collected unknown values and same-type conversion fields are the documented as-is positions"]
    cfg = make_cfg(constants=dict(N=3), invariants=["FreshImpliesAliasRule"])
    res = run_tlc(ctx.scratch, "Heap", cfg, tag="Heap", timeout_s=600)
    ctx.add_tlc(res, "sanity model of the identity rules (all owner assignments of 3 identities)")
    if not res.ok:
        ctx.model_violation(res, "Heap.tla")
    obs = []
    for case in catalogue():
        for dt in (DebugTrail.DISABLE, DebugTrail.FIRST, DebugTrail.ALL) if case["op"] != "convert" else ("-",):
            try:
                obs.append(observe(case, dt))
            except Exception as e:  # noqa: BLE001
                raise MachineryError(f"heap observation failed for {case.get('label', case.get('tp'))}: {type(e).__name__}: {e}") from None
    lines = [{k: v for k, v in o.items() if not k.startswith("_") and k not in ("label", "dt")} for o in obs]
    bad = validate(ctx, "Trace_Heap", lines, tag="Heap")
    for o in obs:
        ctx.nontrivial.add(stable_hash([o["label"], o["dt"]]))
    ctx.replayed += 2 * len(obs)
    ctx.samples += [{k: v for k, v in o.items() if k != "_detail"} for o in obs[:: max(1, len(obs) // 3)][:3]]
    for v in bad:
        o = obs[v["l"] - 1]
        for clause in sorted(v["bad"]):
            ctx.violation({"what": clause, "case": o["label"]}, f"{o['label']} ({o['dt']}): clause {clause} fails: {o['_detail']}",
                          {"observation": {k: x for k, x in o.items() if k != "_detail"}, "detail": o["_detail"], "clause": clause})
    # the Layout programs: every successful load / dump of every program is repeated and observed
    from .. import layoutreplay
    layoutreplay.HEAP["on"] = True
    slices = ("A", "C") if ctx.tier == "quick" else ("A", "B", "C", "D", "E", "F")
    total = layoutreplay.run_slices(ctx, slices, {"A": 1, "C": 1} if ctx.tier == "quick" else {"A": 2, "B": 1, "C": 2, "D": 1, "E": 1, "F": 1}, twins=False)
    # "loading never mutates the input datum" - also when the input is a mapping that defines __missing__ (Layout replay, probe family)
    for f in total["C03"]:
        if f["sig"]["what"] == "loading_wrote_into_the_input":
            ctx.violation({"what": "loading_wrote_into_the_input", "mapping_with_missing": True}, f["detail"][:260],
                          {"program": f["case"], "detail": f["detail"], "count": f.get("count", 1)})
    slots = sorted(total["heap"].values(), key=lambda s: json.dumps(s["obs"], sort_keys=True))
    bad = validate(ctx, "Trace_Heap", [s["obs"] for s in slots], tag="HeapLayout")
    ctx.extra["layout_heap_observations"] = sum(s["n"] for s in slots)
    ctx.extra["layout_heap_distinct_patterns"] = len(slots)
    ctx.trace_lines += sum(s["n"] for s in slots) - len(slots)
    for v in bad:
        s = slots[v["l"] - 1]
        for clause in sorted(v["bad"]):
            ctx.violation({"what": clause, "case": "layout " + s["label"].split()[0]}, f"layout program {s['label']}: clause {clause} fails: {s['detail']}",
                          {"observation": s["obs"], "program": s["case"], "detail": s["detail"], "clause": clause, "count": s["n"]})
    # the dump sweep: no dumper returns its own argument for a container type
    from ..dumpsweep import report_dump, run_dump_sweep
    sweep = run_dump_sweep(ctx)
    report_dump(ctx, sweep, "C20")
    ctx.evaluations += ctx.replayed
    # code -> spec: the calls of the repository's own test-suite with their variations, judged by spec/Trace_Harvest.tla
    from .. import harvest
    harvest.check(ctx, "C20")


def replay(path: str) -> int:
    data = json.load(open(path))
    print(data.get("what"))
    print(f"VIOLATION property=C20 replay={path}")
    return 1
