"""Process-pool helper: replay is embarrassingly parallel (one forked interpreter per worker)."""
from __future__ import annotations

import multiprocessing as mp
import os
from typing import Any, Callable, Iterable, Iterator, Sequence

WORKERS = int(os.environ.get("VERIF_WORKERS", "16"))


def chunked(it: Iterable, n: int) -> Iterator[list]:
    buf = []
    for x in it:
        buf.append(x)
        if len(buf) >= n:
            yield buf
            buf = []
    if buf:
        yield buf


def pmap(func: Callable[[list], Any], items: Iterable, chunk: int = 200, workers: int = WORKERS) -> Iterator[Any]:
    """func takes a *list* of items (a chunk) and returns something picklable; results are yielded unordered."""
    chunks = chunked(items, chunk)
    if workers <= 1:
        for c in chunks:
            yield func(c)
        return
    ctx = mp.get_context("fork")
    with ctx.Pool(workers, maxtasksperchild=50) as pool:
        yield from pool.imap_unordered(func, chunks)
