"""The Load sweep: TLC enumerates (type, datum) cases from spec/MC_Load.tla with the model's verdict for both
coercion modes; every case is replayed on the real library in the six (strict_coercion x debug_trail) modes
and judged for C02 (documented rule), C04 (LoadError only), C05 (trails), C06 (modes agree), C07 (strict narrows).
Each property's check runs the sweep and reports its own category."""
from __future__ import annotations

import json
import os
import traceback
from collections import defaultdict
from typing import Any, Optional

from . import gamma, univ
from .core import Ctx, stable_hash
from .gamma import Node, canon, ev, flatten_exc, follow_trail, foreign_leaves, hint, is_load_error_tree, model_paths, type_at, type_str
from .par import pmap
from .tlc import SPEC_DIR, MachineryError, make_cfg, run_tlc

INVS = ["RulesTotal", "StrictNarrows", "StrictOrigins", "ErrsOnlyWhenRejected", "UnexpConsistent", "EmitCase"]


def q(xs) -> str:
    return "{" + ", ".join(f'"{x}"' for x in xs) + "}"


PROFILES = {
    "quick": dict(
        KeyPool=["s_a", "i1", "s_int"], Pool=["i1", "bT", "s_a", "s_int", "none", "f_frac", "ba_a"],
        ElemKinds=["int", "str", "bool", "float", "Decimal", "date", "Any", "timedelta"],
        IterTypeKinds=["list", "set", "Sequence", "tuple_var", "frozenset", "Iterable", "deque"],
        DataKinds=["list", "tuple", "set", "gen", "dict", "cmap", "citer"], Width=2, Deep=True, reps=2),
    "thorough": dict(
        KeyPool=["s_a", "i1", "s_int", "bT", "s_date"], Pool=["i1", "bT", "s_a", "s_int", "none", "f_frac", "d1", "i_huge", "s_date", "ba_a"],
        ElemKinds=["int", "str", "bool", "float", "Decimal", "Fraction", "complex", "date", "datetime", "Any", "None", "timedelta",
                   "bytes", "UUID", "Path", "Pattern"],
        IterTypeKinds=sorted(gamma.ITER_HINT), DataKinds=["list", "tuple", "set", "frozenset", "deque", "gen", "citer", "dict", "cmap"],
        Width=2, Deep=True, reps=3),
}


def data_str(d: dict) -> str:
    c = d["c"]
    if c == "atom":
        return d["a"]
    if c in ("dict", "cmap", "defaultdict"):
        return c + "{" + ",".join(f"{data_str(k)}:{data_str(v)}" for k, v in zip(d["ks"], d["vs"])) + "}"
    return c + "(" + ",".join(data_str(x) for x in d["xs"]) + ")"


CONTAINER_KINDS = set(gamma.ITER_HINT) | set(gamma.DICT_HINT) | {"tuple_fix"}


def ctor_key(T: dict) -> str:
    """the 'call site' part of a finding signature: the loader of which type constructor misbehaves.
    Containers are identified by their constructor alone (the element types are attributed separately by the
    derived-failure rule), everything else by the full type."""
    return T["k"] if T["k"] in CONTAINER_KINDS else type_str(T)


def datum_key(d: dict) -> str:
    """the input-class part of a finding signature: the token for atoms, the container kind otherwise"""
    return d["a"] if d["c"] == "atom" else d["c"]


def size_of(T: dict, d: dict) -> int:
    return len(type_str(T)) + len(data_str(d))


def depth(T: dict) -> int:
    return 0 if not T["a"] else 1 + max(depth(a) for a in T["a"])


def has_union(T: dict) -> bool:
    return T["k"] in ("union", "literal") or any(has_union(a) for a in T["a"])


def sub_pairs(T: dict, d: dict):
    """aligned (sub type, sub datum) pairs strictly below the root (used to attribute a nested failure to a failing leaf)"""
    while T["k"] in ("newtype", "annotated"):
        T = T["a"][0]
    k = T["k"]
    if k == "union":
        for a in T["a"]:
            yield (a, d)
            yield from sub_pairs(a, d)
        return
    if d["c"] == "atom":
        return
    if k in gamma.DICT_HINT and d["c"] in ("dict", "cmap"):
        for kk, vv in zip(d["ks"], d["vs"]):
            yield (T["a"][0], kk)
            yield from sub_pairs(T["a"][0], kk)
            yield (T["a"][1], vv)
            yield from sub_pairs(T["a"][1], vv)
    elif k in gamma.ITER_KINDS:
        items = d["ks"] if d["c"] in ("dict", "cmap") else d["xs"]
        for i, x in enumerate(items):
            if k == "tuple_fix":
                if i >= len(T["a"]):
                    break
                e = T["a"][i]
            else:
                e = T["a"][0]
            yield (e, x)
            yield from sub_pairs(e, x)


# ---------------------------------------------------------------------------------------------
# worker
# ---------------------------------------------------------------------------------------------
_MODES = None


def modes():
    global _MODES
    if _MODES is None:
        from adaptix import DebugTrail
        _MODES = [DebugTrail.DISABLE, DebugTrail.FIRST, DebugTrail.ALL]
    return _MODES


def _err_desc(e: BaseException) -> str:
    return f"{type(e).__name__}: {str(e)[:120]}"


def _input_value(e: BaseException) -> Any:
    return getattr(e, "input_value", _NOIV)


_NOIV = object()


def has_literal(T: dict) -> bool:
    return T["k"] == "literal" or any(has_literal(a) for a in T["a"])


def judge_case(T: dict, case: dict, loaders_by_k: dict, reps: int, bad: dict, out: dict) -> None:
    """run one abstract case in all modes, append findings to out[cat]"""
    from adaptix.load_error import LoadError, UnionLoadError
    d = case["d"]
    tstr = type_str(T)
    dstr = data_str(d)
    union_inside = has_union(T)
    user_inside = gamma.has_user(T)
    for k in range(reps):
        if k > 0 and not _has_multi_rep(d):
            break
        node = Node(d, k)
        loaders = loaders_by_k.get(k, loaders_by_k[0])
        obs: dict = {}
        expd: dict = {}
        for s in (True, False):
            model = case["S"] if s else case["L"]
            for dt in modes():
                datum = node.make()
                if model["acc"] and not model["undef"]:
                    ex = []
                    for term in model["acc"]:
                        try:
                            ex.append(("v", canon(ev(term, node))))
                        except gamma.NoValue:
                            ex.append(("t", "str"))
                        except Exception as e:  # noqa: BLE001
                            raise MachineryError(f"cannot evaluate expected result {term} for {tstr} <- {dstr}: {e!r}") from None
                    expd[(s, dt.name)] = ex
                try:
                    obs[(s, dt.name)] = ("ok", loaders[(s, dt.name)](datum), datum)
                except BaseException as e:  # noqa: BLE001
                    obs[(s, dt.name)] = ("err", e, datum)
        out["runs"] += 1
        for s in (True, False):
            model = case["S"] if s else case["L"]
            skey = "S" if s else "L"
            derived = {cat: any((type_str(a), data_str(b), skey) in bad.get(cat, ()) for a, b in sub_pairs(T, d))
                       for cat in ("C02", "C04", "C05", "C06", "C07")}

            def add(cat, what, detail, dtname=None, extra_sig=None):
                out["badkeys"][cat].add((tstr, dstr, skey))
                if derived[cat]:
                    out["derived"][cat] += 1
                    return
                sig = {"what": what, "type": ctor_key(T), "datum": datum_key(d), "strict": s}
                if extra_sig:
                    sig.update(extra_sig)
                if what == "input_value_is_not_the_value_at_the_trail":
                    sig = {"what": what, "error": sig.get("error")}       # (one finding per error class, not per type and datum)
                if cat == "C04":
                    # the failing call site is identified by (loader of which type, which foreign exception class)
                    sig = {"what": what, "type": ctor_key(T), "exc": sig["exc"], **({"unhashable_result": True} if sig.get("unhashable_result") else {})}
                out[cat].append({"sig": sig, "detail": detail, "dt": dtname, "size": size_of(T, d), "k": k, "strict": s,
                                 "T": T, "d": d, "model": model, "py_datum": node.py()})

            for dt in modes():
                tag, val, datum = obs[(s, dt.name)]
                expected_vals = expd.get((s, dt.name))
                # ---- C04 ---------------------------------------------------------------
                if tag == "err" and not model.get("unexp") and not (model["undef"] and user_inside):   # (user code may raise what it likes)
                    off = is_load_error_tree(val)
                    if off:
                        leaves = foreign_leaves(val)
                        excname = type(leaves[0]).__name__ if leaves else type(val).__name__
                        leaf = leaves[0] if leaves else val
                        add("C04", "foreign_exception", f"{_err_desc(val)} (offending leaf class {off})", dt.name,
                            {"exc": excname, **({"unhashable_result": True} if isinstance(leaf, TypeError) and str(leaf).startswith("unhashable type") else {})})
                # ---- C02 ---------------------------------------------------------------
                if model.get("unexp") and not model["undef"]:
                    if tag == "ok":
                        add("C02", "accepts_although_user_code_raises", f"{dt.name}: returned {val!r}; the user supplied loader of a case in front raises for this datum", dt.name)
                elif not model["undef"]:
                    if model["acc"]:
                        if tag == "err":
                            add("C02", "rejects_documented", f"{dt.name}: raised {_err_desc(val)}; documented result(s) {model['acc']}", dt.name)
                        else:
                            cv = canon(val)
                            okv = any((kind == "v" and cv == x) or (kind == "t" and type(val).__name__ == x) for kind, x in expected_vals)
                            if not okv:
                                add("C02", "wrong_value", f"{dt.name}: returned {val!r} ({type(val).__name__}); documented {model['acc']}", dt.name)
                    elif tag == "ok":
                        add("C02", "accepts_undocumented", f"{dt.name}: returned {val!r}; the documented rule rejects", dt.name)
                # ---- C05 ---------------------------------------------------------------
                if not model["undef"] and not model["acc"] and not model.get("unexp") and tag == "err" and isinstance(val, LoadError) \
                        and not is_load_error_tree(val):
                    leaves = flatten_exc(val, (), stop_union=True)
                    want = model_paths(model["errs"])
                    if dt.name == "DISABLE":
                        if any(tr for tr, _ in flatten_exc(val, (), stop_union=False)):
                            add("C05", "trail_in_disable_mode", f"trail attached under DISABLE: {leaves}", dt.name)
                    else:
                        paths = [follow_trail(T, node, tr) for tr, _ in leaves]
                        if any(p is None for p in paths):
                            add("C05", "trail_does_not_resolve", f"{dt.name}: trails {[list(tr) for tr, _ in leaves]} do not all lead into the datum", dt.name)
                        elif dt.name == "ALL":
                            if sorted(paths) != sorted(want):
                                add("C05", "all_mode_errors_not_exact",
                                    f"ALL: reported positions {sorted(paths)} documented invalid positions {sorted(want)}", dt.name)
                        elif len(paths) != 1 or paths[0] not in want:
                            add("C05", "first_mode_error_misplaced",
                                f"FIRST: reported {paths}, invalid positions are {sorted(want)}", dt.name)
                        # "... reaches exactly the offending sub-value": the value an error carries as its input_value is the (scalar)
                        # sub-value its trail leads to
                        if all(p is not None for p in paths):
                            for (tr, exc), p in zip(leaves, paths):
                                iv = _input_value(exc)
                                _, nd = type_at(T, node, p)
                                if iv is _NOIV or nd.c != "atom" or nd.a in univ.STATEFUL_TOKENS:
                                    continue
                                v = nd.value
                                # (a loader that materialises its input first - the constant-length tuple loader calls tuple(data) -
                                #  reports the materialised datum: the same elements in the same order are the same offending value)
                                if isinstance(iv, (tuple, list)) and isinstance(v, (str, bytes, bytearray)) and list(iv) == list(v):
                                    continue
                                if not (iv is v or (type(iv) is type(v) and (iv == v or (iv != iv and v != v)))):  # noqa: PLR0124
                                    add("C05", "input_value_is_not_the_value_at_the_trail",
                                        f"{dt.name}: {type(exc).__name__} at trail {list(tr)} carries input_value={iv!r}; the sub-value there is {v!r}", dt.name,
                                        {"error": type(exc).__name__})
                                    break
            # ---- C06: the three modes agree -------------------------------------------------
            tags = {dt.name: obs[(s, dt.name)][0] for dt in modes()}
            if len(set(tags.values())) > 1:
                add("C06", "acceptance_differs", f"acceptance per mode {tags}; errors "
                    f"{ {m: _err_desc(obs[(s, m)][1]) for m in tags if tags[m] == 'err'} }")
            elif tags["ALL"] == "ok":
                cvs = {m: canon(obs[(s, m)][1]) for m in tags}
                # as-is positions return the datum object itself, which is a different object per call for generators
                if len({repr(v) for v in cvs.values()}) > 1 and not _contains_opaque(d):
                    add("C06", "value_differs", f"results per mode { {m: obs[(s, m)][1] for m in tags} }")
            else:
                all_exc = obs[(s, "ALL")][1]
                if not is_load_error_tree(all_exc):
                    all_leaves = [e for _, e in flatten_exc(all_exc, (), stop_union=False)]
                    all_leaves += [e for _, e in flatten_exc(all_exc, (), stop_union=True)]
                    for m in ("DISABLE", "FIRST"):
                        e = obs[(s, m)][1]
                        if is_load_error_tree(e):
                            continue
                        singles = [x for _, x in flatten_exc(e, (), stop_union=False)] + [x for _, x in flatten_exc(e, (), stop_union=True)]
                        if type(e) is LoadError and any(isinstance(x, UnionLoadError) for x in all_leaves):
                            continue      # bare LoadError of a failing union under DISABLE (DESIGN App. B.2)

                        def corresponds(x):
                            return any(type(x) is type(y) and _same_input(_input_value(x), _input_value(y)) for y in all_leaves)
                        if not any(corresponds(x) for x in singles):
                            add("C06", "single_error_not_among_all",
                                f"{m} raised {[_err_desc(x) for x in singles]}, ALL collected {[_err_desc(y) for y in all_leaves]}", m)
        # ---- C07: strict vs lax, per debug mode ---------------------------------------------
        for dt in modes():
            st, lx = obs[(True, dt.name)], obs[(False, dt.name)]
            derived7 = any((type_str(a), data_str(b), "S") in bad.get("C07", ()) for a, b in sub_pairs(T, d))
            if st[0] == "ok":
                what = None
                if lx[0] != "ok":
                    what, detail = "strict_accepts_lax_rejects", f"{dt.name}: strict returned {st[1]!r}, lax raised {_err_desc(lx[1])}"
                elif not union_inside and not _contains_opaque(d) and canon(st[1]) != canon(lx[1]):
                    what, detail = "strict_and_lax_values_differ", f"{dt.name}: strict {st[1]!r} lax {lx[1]!r}"
                sm = case["S"]
                if what is None and not sm["undef"] and not sm["acc"] and not sm.get("unexp"):
                    what, detail = "strict_accepts_outside_allowed_origins", f"{dt.name}: strict returned {st[1]!r} for a datum outside the documented strict origins"
                if what:
                    out["badkeys"]["C07"].add((tstr, dstr, "S"))
                    if derived7:
                        out["derived"]["C07"] += 1
                    else:
                        out["C07"].append({"sig": {"what": what, "type": ctor_key(T), "datum": datum_key(d), "strict": True},
                                           "detail": detail, "dt": dt.name, "size": size_of(T, d), "k": k, "T": T, "d": d, "strict": True,
                                           "model": {"S": case["S"], "L": case["L"]}, "py_datum": node.py()})


def _same_input(a, b) -> bool:
    if a is _NOIV or b is _NOIV:
        return a is b
    if a is b:
        return True
    if type(a) is not type(b):
        return False
    if type(a).__name__ in ("generator", "CIter", "CMap", "object"):
        return True      # a fresh object per mode: the same position of the datum
    try:
        return canon(a) == canon(b)
    except Exception:  # noqa: BLE001
        return False


def _contains_opaque(d: dict) -> bool:
    c = d["c"]
    if c == "atom":
        return d["a"] in ("obj",) or d["a"] in univ.STATEFUL_TOKENS       # (streams are made afresh for every call: str() of them differs)
    if c in ("gen", "citer", "cmap"):
        return True
    if c in ("dict",):
        return any(_contains_opaque(x) for x in d["ks"] + d["vs"])
    return any(_contains_opaque(x) for x in d["xs"])


def _has_multi_rep(d: dict) -> bool:
    c = d["c"]
    if c == "atom":
        return univ.n_reps(d["a"]) > 1
    if c in ("dict", "cmap", "defaultdict"):
        return any(_has_multi_rep(x) for x in d["ks"] + d["vs"])
    return any(_has_multi_rep(x) for x in d["xs"])


def _worker(items) -> dict:
    """items: list of (path, tkey, [(offset, length)...], reps, variant, bad)"""
    from adaptix import Retort
    out: dict = {"runs": 0, "cases": 0, "C02": [], "C04": [], "C05": [], "C06": [], "C07": [], "derived": defaultdict(int),
                 "creation_failed": [], "machinery": [], "nontrivial": 0, "samples": [],
                 "badkeys": {c: set() for c in ("C02", "C04", "C05", "C06", "C07")}}
    for path, tjson, spans, reps, variant, bad in items:
        T = json.loads(tjson)
        try:
            h = hint(T, variant)
        except Exception as e:  # noqa: BLE001
            out["machinery"].append(f"gamma cannot build hint for {tjson}: {e!r}")
            continue
        loaders_by_k = {}
        try:
            for k in range(reps if has_literal(T) else 1):
                hk = hint(T, variant, k)
                if (len(tjson) + variant + k) % 2:
                    # the six retorts are derived from one base through replace(); the lax loaders are requested first
                    base = Retort(strict_coercion=False, recipe=gamma.user_recipe())
                    rs = {(s, dt.name): base.replace(strict_coercion=s, debug_trail=dt) for s in (False, True) for dt in modes()}
                    base.get_loader(hk)
                else:
                    rs = {(s, dt.name): Retort(strict_coercion=s, debug_trail=dt, recipe=gamma.user_recipe()) for s in (False, True) for dt in modes()}
                loaders_by_k[k] = {key: r.get_loader(hk) for key, r in rs.items()}
        except Exception as e:  # noqa: BLE001
            out["creation_failed"].append({"type": type_str(T), "exc": repr(e)[:300]})
            continue
        with open(path, "rb") as f:
            for off, ln in spans:
                f.seek(off)
                line = f.read(ln).decode("utf-8")
                case = json.loads(json.loads(line))
                out["cases"] += 1
                if any(case[m]["acc"] or (case[m]["errs"] and case[m]["errs"] != [[]]) for m in ("S", "L")):
                    out["nontrivial"] += 1
                    if len(out["samples"]) < 1 and len(case["S"]["errs"]) > 1:
                        out["samples"].append({"type": type_str(T), "datum": data_str(case["d"]),
                                               "model_strict": case["S"], "model_lax": case["L"]})
                try:
                    judge_case(T, case, loaders_by_k, reps, bad, out)
                except MachineryError as e:
                    out["machinery"].append(str(e))
                except Exception:  # noqa: BLE001
                    out["machinery"].append(f"harness error on {type_str(T)} <- {data_str(case['d'])}: {traceback.format_exc()[-800:]}")
        # keep the per-signature minimum only (bounded result size)
        for cat in ("C02", "C04", "C05", "C06", "C07"):
            out[cat] = _min_per_sig(out[cat])
    out["derived"] = dict(out["derived"])
    return out


def _min_per_sig(fs: list) -> list:
    best: dict = {}
    for f in fs:
        key = stable_hash(f["sig"])
        cur = best.get(key)
        if cur is None:
            f["count"] = f.get("count", 1)
            f["dts"] = set(f.get("dts", ())) | ({f["dt"]} if f["dt"] else set())
            best[key] = f
        else:
            cur["count"] += f.get("count", 1)
            cur["dts"] |= set(f.get("dts", ())) | ({f["dt"]} if f["dt"] else set())
            if (f["size"], f["k"]) < (cur["size"], cur["k"]):
                f["count"], f["dts"] = cur["count"], cur["dts"]
                best[key] = f
    return list(best.values())


# ---------------------------------------------------------------------------------------------
def run_sweep(ctx: Ctx, profile_name: Optional[str] = None) -> dict:
    prof = dict(PROFILES[profile_name or ctx.tier])
    reps = prof.pop("reps")
    problems = univ.check_classes()
    if problems:
        raise MachineryError("token classes are not constant: " + "; ".join(problems[:5]))
    axioms = univ.axioms_tla()
    consts = {k: (q(v) if isinstance(v, list) else v) for k, v in prof.items()}
    consts["TopTokens"] = q(univ.TOKENS)
    consts["EmitCases"] = True
    cfg = make_cfg(constants=consts, invariants=INVS)
    res = run_tlc(ctx.scratch, "MC_Load", cfg, tag="MC_Load", timeout_s=3000, extra_files={"PyAxioms.tla": axioms})
    ctx.add_tlc(res, f"exhaustive case enumeration, profile {profile_name or ctx.tier}")
    if not res.ok:
        ctx.model_violation(res, "the documented rule set (Load.tla) violates its own consistency properties")
    # index the emitted cases by type
    groups: dict[str, list] = defaultdict(list)
    off = 0
    with open(res.out_path, "rb") as f:
        for line in f:
            ln = len(line)
            if line.startswith(b'"{\\"T\\":'):
                end = line.find(b',\\"d\\":')
                tkey = line[8:end].decode()
                groups[tkey].append((off, ln - 1))
            off += ln
    tjsons = {tk: json.loads('"' + tk + '"') for tk in groups}
    by_depth: dict[int, list] = defaultdict(list)
    for tk, tj in tjsons.items():
        by_depth[depth(json.loads(tj))].append(tk)
    total = {"runs": 0, "cases": 0, "C02": [], "C04": [], "C05": [], "C06": [], "C07": [], "derived": defaultdict(int),
             "creation_failed": [], "machinery": [], "nontrivial": 0}
    bad: dict[str, set] = {c: set() for c in ("C02", "C04", "C05", "C06", "C07")}
    variant = ctx.seed % 2
    for dep in sorted(by_depth):
        items = []
        for tk in by_depth[dep]:
            spans = groups[tk]
            for i in range(0, len(spans), 400):
                items.append((str(res.out_path), tjsons[tk], spans[i:i + 400], reps, variant, bad))
        newbad = {c: set() for c in bad}
        for o in pmap(_worker, items, chunk=1):
            for c in newbad:
                newbad[c] |= o["badkeys"][c]
            total["runs"] += o["runs"]
            total["nontrivial"] += o["nontrivial"]
            if len(ctx.samples) < 5:
                ctx.samples += o["samples"]
            total["cases"] += o["cases"]
            for cat in ("C02", "C04", "C05", "C06", "C07"):
                total[cat] += o[cat]
            for c, n in o["derived"].items():
                total["derived"][c] += n
            total["creation_failed"] += o["creation_failed"]
            total["machinery"] += o["machinery"]
        for cat in newbad:
            bad[cat] |= newbad[cat]
    if total["machinery"]:
        raise MachineryError(f"{len(total['machinery'])} harness failures, first: {total['machinery'][0]}")
    for cat in ("C02", "C04", "C05", "C06", "C07"):
        total[cat] = _min_per_sig(total[cat])
    ctx.replayed += total["runs"]
    ctx.evaluations += total["runs"] * 6
    ctx.extra["abstract_cases"] = total["cases"]
    ctx.nontrivial_n += total["nontrivial"]
    ctx.extra["types"] = len(groups)
    ctx.extra["derived_suppressed"] = dict(total["derived"])
    ctx.extra["loader_creation_failed"] = total["creation_failed"][:20]
    ctx.exhaustive = True
    return {"total": total, "res": res, "groups": groups, "tjsons": tjsons}


def report(ctx: Ctx, sweep: dict, cat: str) -> None:
    fs = sorted(sweep["total"][cat], key=lambda f: (f["size"], json.dumps(f["sig"], sort_keys=True)))
    for f in fs:
        T = f["T"]
        src = replay_source(T, f["d"], f["k"], f["strict"])
        ctx.violation(f["sig"], f"{f['sig']['what']}: {type_str(T)} <- {data_str(f['d'])} strict={f['strict']}: {f['detail'][:160]}",
                      {"category": cat, "T": T, "d": f["d"], "rep": f["k"], "model": f["model"], "modes": sorted(f["dts"]),
                       "count": f["count"], "python_datum": f["py_datum"], "detail": f["detail"], "source": src})


def replay_source(T: dict, d: dict, k: int, strict: bool) -> str:
    return ("# stand-alone reproduction (run with PYTHONPATH=/repo/src:/verif)\n"
            "import json\nfrom adaptix import Retort, DebugTrail\nfrom vf.gamma import hint, Node\n"
            f"T = json.loads({json.dumps(json.dumps(T))})\nd = json.loads({json.dumps(json.dumps(d))})\n"
            f"for dt in DebugTrail:\n    r = Retort(strict_coercion={strict}, debug_trail=dt)\n"
            f"    try:\n        print(dt.name, 'ok', repr(r.load(Node(d, {k}).make(), hint(T, 0, {k}))))\n"
            "    except BaseException as e:\n        print(dt.name, 'raised', type(e).__name__, repr(e)[:300])\n")
