"""Check context: violations (with replay files and known-finding matching), evidence, exit codes."""
from __future__ import annotations

import hashlib
import json
import os
import sys
import time
from pathlib import Path
from typing import Any, Callable, Optional

from .tlc import MachineryError, Scratch, TLCResult

ROOT = Path(__file__).resolve().parent.parent
KNOWN = ROOT / "known_findings.json"
# evidence and replay files go to /verif unless a self-test run (seeded changes) redirects them
OUT = Path(os.environ.get("VERIF_OUT_DIR") or ROOT)


def stable_hash(obj: Any) -> str:
    return hashlib.sha1(json.dumps(obj, sort_keys=True, default=str).encode()).hexdigest()[:16]


class Ctx:
    def __init__(self, pid: str, tier: str, seed: int, level: str = "model_checking"):
        self.pid = pid
        self.tier = tier
        self.seed = seed
        self.level = level
        self.t0 = time.time()
        self.scratch = Scratch()
        self.states = 0
        self.transitions = 0
        self.tlc_runs: list[dict] = []
        self.replayed = 0            # spec -> code cases executed on the implementation
        self.trace_lines = 0         # code -> spec trace events validated by TLC
        self.evaluations = 0
        self.nontrivial: set[str] = set()
        self.nontrivial_n = 0
        self.samples: list[Any] = []
        self.violations: list[dict] = []
        self.known_hits: dict[str, int] = {}
        self.outside_model = 0
        self.notes: list[str] = []
        self.extra: dict[str, Any] = {}
        self.exhaustive = False
        self.assumptions: list[str] = []
        self.rule = ""
        self._known = self._load_known()
        self._seen_sigs: set[str] = set()

    # ---- known findings -------------------------------------------------------------------
    def _load_known(self) -> list[dict]:
        if not KNOWN.exists():
            return []
        data = json.loads(KNOWN.read_text())
        return [e for e in data.get("findings", []) if e.get("property") == self.pid and e.get("status") == "finding"]

    def _match_known(self, sig: dict) -> Optional[dict]:
        for e in self._known:
            want = e.get("signature", {})
            if all(_sig_match(sig.get(k), v) for k, v in want.items()):
                return e
        return None

    # ---- TLC accounting -------------------------------------------------------------------
    def add_tlc(self, res: TLCResult, note: str = "") -> None:
        self.states += res.distinct
        self.transitions += res.generated
        self.tlc_runs.append({"module": res.module, "mode": res.mode, "generated": res.generated,
                              "distinct": res.distinct, "depth": res.depth, "wall_s": round(res.wall_s, 1),
                              "violated": res.violated, "note": note,
                              **({"coverage": res.coverage} if res.coverage else {})})

    def model_violation(self, res: TLCResult, what: str) -> None:
        """The *model* violates its own property: that is a defect of the model (or of the documented
        design) and is a machinery failure, never reported as a violation of the code."""
        raise MachineryError(f"model-level violation in {res.module}: {what}: {res.violated}\n{res.error_text[:3000]}")

    # ---- case accounting ------------------------------------------------------------------
    def case(self, key: Any, nontrivial: bool = True, sample: Any = None) -> None:
        self.evaluations += 1
        if nontrivial:
            self.nontrivial.add(key if isinstance(key, str) else stable_hash(key))
        if sample is not None and len(self.samples) < 6:
            self.samples.append(sample)

    # ---- violations -----------------------------------------------------------------------
    def violation(self, sig: dict, what: str, replay: dict) -> None:
        """sig: abstract signature (dict of scalars) used for known-finding matching and dedup.
        replay: JSON-serialisable description of the concrete witness (incl. 'source': stand-alone python)."""
        sig_key = stable_hash(sig)
        known = self._match_known(sig)
        if known is not None:
            kid = known.get("id", stable_hash(known.get("signature")))
            self.known_hits[kid] = self.known_hits.get(kid, 0) + 1
            return
        if sig_key in self._seen_sigs:
            for v in self.violations:
                if v["sig_key"] == sig_key:
                    v["count"] += 1
            return
        self._seen_sigs.add(sig_key)
        d = OUT / "replays" / self.pid
        d.mkdir(parents=True, exist_ok=True)
        path = d / f"{sig_key}.json"
        path.write_text(json.dumps({"property": self.pid, "signature": sig, "what": what, "seed": self.seed,
                                    **replay}, indent=1, default=str))
        self.violations.append({"sig_key": sig_key, "sig": sig, "what": what, "path": str(path), "count": 1})

    # ---- finish ---------------------------------------------------------------------------
    def finish(self) -> int:
        wall = time.time() - self.t0
        for e in self._known:
            kid = e.get("id", stable_hash(e.get("signature")))
            if self.known_hits.get(kid):
                print(f"KNOWN-FINDING: property={self.pid} {e.get('what', kid)} [hits={self.known_hits[kid]}]")
        for v in self.violations[:40]:
            print(f"VIOLATION property={self.pid} replay={v['path']}  ({v['what'][:260]})")
        if len(self.violations) > 40:
            print(f"... and {len(self.violations) - 40} more violations (replay files under {OUT / 'replays' / self.pid})")
        cov: dict[str, Any] = {
            "states": self.states,
            "transitions": self.transitions,
            "traces_validated_against_impl": self.replayed + self.trace_lines,
            "samples": self.samples or ["(none)"],
            "evaluations": self.evaluations,
            "distinct_nontrivial": len(self.nontrivial) + self.nontrivial_n,
            "rule": self.rule,
            "exhaustive": self.exhaustive,
            "tlc_runs": self.tlc_runs,
            "replayed_spec_to_code": self.replayed,
            "trace_events_code_to_spec": self.trace_lines,
            "outside_model": self.outside_model,
            "known_findings_hit": self.known_hits,
            "notes": self.notes,
            **self.extra,
        }
        ev = {
            "property_id": self.pid,
            "tier": self.tier,
            "seed": self.seed,
            "level": self.level,
            "coverage": cov,
            "assumptions": self.assumptions,
            "wall_s": round(wall, 2),
            "violations": len(self.violations),
        }
        (OUT / "evidence").mkdir(parents=True, exist_ok=True)
        (OUT / "evidence" / f"{self.pid}.json").write_text(json.dumps(ev, indent=1, default=str))
        self.scratch.cleanup()
        print(f"[{self.pid}] tier={self.tier} seed={self.seed} states={self.states} transitions={self.transitions} "
              f"replayed={self.replayed} trace_events={self.trace_lines} evaluations={self.evaluations} "
              f"nontrivial={len(self.nontrivial) + self.nontrivial_n} known_hits={sum(self.known_hits.values())} "
              f"violations={len(self.violations)} wall={wall:.1f}s")
        return 1 if self.violations else 0


def _sig_match(have: Any, want: Any) -> bool:
    if isinstance(want, dict) and "any_of" in want:
        return have in want["any_of"]
    if isinstance(want, dict) and "prefix" in want:
        return isinstance(have, str) and have.startswith(want["prefix"])
    return have == want
