"""./check --selftest [name] : demonstrations that the machinery is bound to the code and not vacuous.

  binding_router   traces recorded from the real retort are accepted by Trace_Router; the same traces with one consult
                   removed (a lost hook) / two consults swapped / the outcome flipped are rejected, each by a named clause
  binding_heap     heap observations recorded from the real library are accepted by Trace_Heap; with one result identity
                   replaced by an argument identity / a retort identity / the other result's identity they are rejected
  binding_conc     schedules recorded from the real retort are accepted by Trace_Conc (apart from the known finding); with the
                   bind event of a creator moved behind the foreign call they are rejected
  mutant_load      Load.tla with `bool` added to the strict origins of int: the replay of the unchanged code must disagree
  mutant_layout    Layout.tla with trim_trailing_underscore ignored by the key rule: the replay must disagree
  mutant_kinds     Kinds.tla with defaults declared for TypedDict keys: the replay must disagree
Exit 0 = every demonstration behaved as stated; exit 2 otherwise (a self-test never reports a VIOLATION)."""
from __future__ import annotations

import copy
import sys

from .core import Ctx
from .tlc import SPEC_DIR, MachineryError


def _ctx(name: str) -> Ctx:
    return Ctx("SELFTEST_" + name, "quick", 0)


def binding_router() -> str:
    from .props.c09_trace import _chunk
    from .trace import validate
    import random
    ctx = _ctx("router")
    rng = random.Random(5)
    cases = []
    while len(cases) < 300:
        rec = [{"c": rng.choice(["exA", "exB", "predY", "predN"]), "h": rng.choice(["plain", "decline", "first", "last", "deleg"])}
               for _ in range(rng.randint(2, 8))]
        cases.append((0, {"rec": rec, "tail": True}))
    lines = _chunk(cases)
    good = validate(ctx, "Trace_Router", lines, tag="good")
    if good:
        raise MachineryError(f"binding_router: unmodified traces rejected: {good[:2]}")
    out = []
    for how in ("lost_consult", "swapped_consults", "flipped_outcome"):
        mutated, touched = [], 0
        for ln in lines:
            ln = copy.deepcopy(ln)
            if how == "lost_consult" and len(ln["log"]) >= 2:
                del ln["log"][1]
                touched += 1
            elif how == "swapped_consults" and len(ln["log"]) >= 2 and ln["log"][0] != ln["log"][1]:
                ln["log"][0], ln["log"][1] = ln["log"][1], ln["log"][0]
                touched += 1
            elif how == "flipped_outcome":
                ln["ok"] = not ln["ok"]
                touched += 1
            mutated.append(ln)
        bad = validate(ctx, "Trace_Router", mutated, tag=how)
        clauses = sorted({c for v in bad for c in v["bad"]})
        if len(bad) < touched:
            raise MachineryError(f"binding_router: {how}: only {len(bad)} of {touched} corrupted traces rejected")
        out.append(f"{how}: {len(bad)}/{touched} rejected by {clauses}")
    ctx.scratch.cleanup()
    return "; ".join(out)


def binding_heap() -> str:
    from adaptix import DebugTrail
    from .props.c20 import catalogue, observe
    from .trace import validate
    ctx = _ctx("heap")
    obs = [observe(c, DebugTrail.ALL if c["op"] != "convert" else "-") for c in catalogue()]
    lines = [{k: v for k, v in o.items() if not k.startswith("_") and k not in ("label", "dt")} for o in obs]
    if validate(ctx, "Trace_Heap", lines, tag="good"):
        raise MachineryError("binding_heap: unmodified observations rejected")
    out = []
    for how, want in (("res_is_arg", "alias_only_as_is"), ("res_in_retort", "no_alias_with_retort"), ("res_shared", "no_shared_mutable"),
                      ("arg_changed", "arg_unchanged"), ("repeat_differs", "repeat_equal")):
        mutated, touched = [], 0
        for ln in lines:
            ln = copy.deepcopy(ln)
            fresh = [i for i in ln["res1"] if i not in ln["asis"] and i not in ln["arg"]]
            free_arg = [i for i in ln["arg"] if i not in ln["asis"]]
            if how == "res_is_arg" and fresh and free_arg:
                ln["res1"] = [free_arg[0] if i == fresh[0] else i for i in ln["res1"]]
                touched += 1
            elif how == "res_in_retort" and fresh:
                ln["retort"] = ln["retort"] + [fresh[0]]
                touched += 1
            elif how == "res_shared" and fresh:
                ln["res2"] = ln["res2"] + [fresh[0]]
                touched += 1
            elif how == "arg_changed":
                ln["arg_same"] = False
                touched += 1
            elif how == "repeat_differs":
                ln["repeat_equal"] = False
                touched += 1
            mutated.append(ln)
        bad = validate(ctx, "Trace_Heap", mutated, tag=how)
        hit = sum(1 for v in bad if want in v["bad"])
        if hit < touched or touched == 0:
            raise MachineryError(f"binding_heap: {how}: clause {want} flagged {hit} of {touched} corrupted observations")
        out.append(f"{how}: {hit}/{touched} rejected by {want}")
    ctx.scratch.cleanup()
    return "; ".join(out)


def binding_harvest() -> str:
    """Trace_Harvest: a well-behaved harvested call is accepted; each corrupted variation is rejected by the clause that owns it;
    a call whose fresh-retort references already disagree (user code with state) is dropped, not judged"""
    from .trace import validate
    ctx = _ctx("harvest")
    good = {"tags": ["ok"] * 9, "vals": [1] * 9, "has_lax": True, "arg_same": True}

    def mut(**kw):
        ln = copy.deepcopy(good)
        for k, v in kw.items():
            if k in ("tags", "vals"):
                for i, x in v.items():
                    ln[k][i - 1] = x
            else:
                ln[k] = v
        return ln
    cases = [("good", good, set()),
             ("mode_rejects", mut(tags={7: "err"}), {"modes_agree_on_acceptance"}),
             ("mode_value", mut(vals={8: 2}), {"modes_agree_on_value"}),
             ("lax_rejects", mut(tags={9: "err"}), {"strict_narrows"}),
             ("history", mut(vals={2: 3, 3: 3}), {"history_free"}),
             ("repeat", mut(vals={3: 5}), {"repeat_equal"}),
             ("mutated_arg", mut(arg_same=False), {"arg_unchanged"}),
             ("nondeterministic", mut(vals={5: 9, 7: 4}), set())]
    verdicts = {v["l"]: v for v in validate(ctx, "Trace_Harvest", [c[1] for c in cases], tag="hv")}
    out = []
    for i, (name, _, want) in enumerate(cases, start=1):
        got = set(verdicts.get(i, {}).get("bad", []))
        if not want <= got or (not want and got):
            raise MachineryError(f"binding_harvest: case {name}: clauses {sorted(got)}, expected {sorted(want)}")
        out.append(f"{name}: {sorted(got) or 'accepted'}")
    if not verdicts.get(8, {}).get("nd"):
        raise MachineryError("binding_harvest: the nondeterministic call was not dropped")
    ctx.scratch.cleanup()
    return "; ".join(out)


def _mutant_replay(name: str, module: str, old: str, new: str, runner) -> str:
    text = (SPEC_DIR / module).read_text()
    if old not in text:
        raise MachineryError(f"{name}: the text to mutate is no longer in {module}")
    from . import tlc
    orig = tlc.run_tlc

    def patched(scratch, mod, cfg, **kw):
        extra = dict(kw.pop("extra_files", None) or {})
        extra[module] = text.replace(old, new, 1)
        return orig(scratch, mod, cfg, extra_files=extra, **kw)
    tlc.run_tlc = patched
    try:
        n = runner()
    finally:
        tlc.run_tlc = orig
    if n == 0:
        raise MachineryError(f"{name}: the unchanged code agrees with the mutated specification: the comparison is vacuous")
    return f"{n} disagreements between the unchanged code and the mutated {module}"


def mutant_load() -> str:
    def runner():
        from . import loadsweep
        ctx = _ctx("load")
        loadsweep.run_tlc = __import__("vf.tlc", fromlist=["run_tlc"]).run_tlc
        sweep = loadsweep.run_sweep(ctx)
        n = len(sweep["total"]["C02"])
        ctx.scratch.cleanup()
        return n
    return _mutant_replay("mutant_load", "Load.tla", 'k = "int"       -> [f |-> "int",       so |-> {"int"},',
                          'k = "int"       -> [f |-> "int",       so |-> {"int", "bool"},', runner)


def mutant_layout() -> str:
    def runner():
        from . import layoutreplay
        ctx = _ctx("layout")
        layoutreplay.run_tlc = __import__("vf.tlc", fromlist=["run_tlc"]).run_tlc
        total = layoutreplay.run_slices(ctx, ["A"], {"A": 1}, twins=False)
        n = len(total["C03"])
        ctx.scratch.cleanup()
        return n
    return _mutant_replay("mutant_layout", "Layout.tla", "IF trim /\\ id.us = 1 THEN [id EXCEPT !.us = 0] ELSE id", "id", runner)


def mutant_kinds() -> str:
    def runner():
        from . import layoutreplay
        ctx = _ctx("kinds")
        layoutreplay.run_tlc = __import__("vf.tlc", fromlist=["run_tlc"]).run_tlc
        layoutreplay.TYPE_PRED_ALLOWED["on"] = False
        total = layoutreplay.run_slices(ctx, ["E"], {}, twins=False, kind_tla="typeddict", kinds=["typeddict"])
        n = sum(len(total[c]) for c in layoutreplay.CATS)
        ctx.scratch.cleanup()
        return n
    return _mutant_replay("mutant_kinds", "Kinds.tla", 'hasdfl |-> ~f.req /\\ kind # "typeddict"', "hasdfl |-> ~f.req", runner)


def mutant_routerwrap() -> str:
    """RouterWrap.tla with an unwrapping provider that does NOT start a new search (the inner request would see only the builtin
    provider): the real retort must disagree - its exact-type providers are met after unwrapping"""
    def runner():
        from .props import c09
        from .tlc import make_cfg
        ctx = _ctx("routerwrap")
        c09.run_tlc = __import__("vf.tlc", fromlist=["run_tlc"]).run_tlc
        cfg = make_cfg(constants=dict(MaxLen=2, EmitCases=True), invariants=["EmitCase"])
        res = c09.run_tlc(ctx.scratch, "RouterWrap", cfg, tag="RouterWrap_mutant", timeout_s=600)
        n = 0
        for o in c09.pmap(c09._replay_chunk, ((0, c) for c in res.records()), chunk=250):
            n += len(o["bad"])
        ctx.scratch.cleanup()
        return n
    return _mutant_replay("mutant_routerwrap", "RouterWrap.tla", "IF from > Len(r) THEN [Ref(WithBuiltin(r), 1) EXCEPT !.ab = FALSE]",
                          "IF from > Len(r) THEN [Ref(WithBuiltin(r), Len(r) + 1) EXCEPT !.ab = FALSE]", runner)


TESTS = {"binding_router": binding_router, "binding_heap": binding_heap, "binding_harvest": binding_harvest, "mutant_load": mutant_load, "mutant_layout": mutant_layout,
         "mutant_kinds": mutant_kinds, "mutant_routerwrap": mutant_routerwrap}


def main(which: str) -> int:
    names = list(TESTS) if which == "all" else [which]
    rc = 0
    for n in names:
        if n not in TESTS:
            print(f"MACHINERY: unknown self-test {n}; known: {sorted(TESTS)}", file=sys.stderr)
            return 2
        try:
            print(f"selftest {n}: ok - {TESTS[n]()}")
        except MachineryError as e:
            print(f"selftest {n}: FAILED - {e}", file=sys.stderr)
            rc = 2
    return rc
