"""./check --setup : offline sanity of the tool chain; builds nothing that is not on disk."""
from __future__ import annotations

import shutil
import subprocess
import sys
import tempfile
from pathlib import Path

from .tlc import SPEC_DIR, sany


def main() -> int:
    ok = True
    if shutil.which("java") is None:
        print("MACHINERY: java not found", file=sys.stderr)
        return 2
    try:
        import adaptix  # noqa: F401
    except Exception as e:  # noqa: BLE001
        print(f"MACHINERY: cannot import adaptix from /repo/src: {e}", file=sys.stderr)
        return 2
    tmp = Path(tempfile.mkdtemp(prefix="vf_setup_"))
    try:
        for f in SPEC_DIR.glob("*.tla"):
            shutil.copy(f, tmp / f.name)
        # the axiom modules are facts about CPython, regenerated at every run (the copies in spec/ are snapshots for the reader)
        from . import univ
        from .props import c08, c10
        problems = univ.check_classes()
        if problems:
            print("MACHINERY: a documented rule is not constant on a token class: " + "; ".join(problems[:5]), file=sys.stderr)
            ok = False
        for name, text in (("PyAxioms.tla", univ.axioms_tla()), ("CtorAxioms.tla", c08.axioms()), ("PredAxioms.tla", c10.axioms())):
            (tmp / name).write_text(text)
            (SPEC_DIR / name).write_text(text)
        for f in sorted(tmp.glob("*.tla")):
            good, out = sany(f)
            print(("ok   " if good else "FAIL ") + f.name)
            if not good:
                ok = False
                print(out[-2000:], file=sys.stderr)
    finally:
        shutil.rmtree(tmp, ignore_errors=True)
    return 0 if ok else 2
